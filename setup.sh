#!/bin/sh
# Offline setup: nothing to build; verify the interpreter, the imports and the tools the checks use.
set -e
cd "$(dirname "$0")"
/venv/bin/python - <<'PY'
import sys, sqlite3
sys.path.insert(0, "/repo/src")
import twisted, autobahn, wormhole_mailbox_server
print("python", sys.version.split()[0], "sqlite", sqlite3.sqlite_version, "twisted", twisted.__version__)
PY
command -v strace >/dev/null && echo "strace present" || echo "strace missing (syscall tiers will be inconclusive)"
mkdir -p evidence out
