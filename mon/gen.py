"""Seeded generator of symbolic histories (DESIGN.md 2.7).

A history is a list of steps:
  ["connect", c] ["send", c, msg] ["drop", c] ["adv", dt] ["restart"] ["sweep"]
where msg values may be references resolved at execution time:
  {"$alloc": c}   the nameplate allocated on connection c
  {"$claimed": c} the mailbox id answered to connection c's claim
Pools are tiny on purpose so that everything collides.
"""
import random

APPS = ["app", "app2", "äpp", "äpp"]
SIDES = ["s1", "s2", "s3", "s4", "s5"]
NAMES = ["1", "2", "3", "7", "10", "100", "007", " 7", "x", "\u00fc", "u\u0308", "", "\u00b2", "\u0663"]
MOODS = [None, "happy", "lonely", "scary", "errory", "weird", ""]
PHASES = ["pake", "version", "0", "1", "", "ph\u00e4se", "pha\u0308se", "p\x00q"]
# strings that differ only in their Unicode normalisation form are different identifiers and must arrive unmodified
NFC_NFD = [("\u00e9", "e\u0301"), ("\u00c5", "A\u030a"), ("\u1e69", "s\u0323\u0307")]
# `client_version` values the protocol document does not allow (it is a pair of strings).  What the server does
# with such a bind is outside every property's input space (don't-care, counted); what it leaves behind is not.
BAD_CLIENT_VERSIONS = [None, [], ["only-one"], 5, {}]


HOSTILE = ["", "\x00", "a\x00b", "ä", "a\u0308", "\U0001f600", "'", '"', "`", "\\", "%s", "?", "1; DROP TABLE messages;--",
           "' OR '1'='1", "null", "None", "0", "-1", "１２", " ", "\n", "\u202e", "x" * 10000, "\ufeff", "%", "_",
           "\ud7ff\ue000", "{}", "[]", "4\u00b2", "\u00b2", "\u0663", "\u2167", "\u00bd", "1e3", "0x10", "+1", "1_0", " 1 "]


class GConn(object):
    def __init__(self, name):
        self.name = name
        self.app = None
        self.side = None
        self.allocated = False
        self.claimed = None      # nameplate value (literal or ref)
        self.released = False
        self.opened = None       # mailbox value
        self.closed = False
        self.alive = True


class Gen(object):
    def __init__(self, seed, napps=2, nsides=3, steps=60, p_illegal=0.08, restarts=True,
                 use_time=True, explicit_sweeps=False, cross_app_mailboxes=False, max_conns=6,
                 names=None, p_third=0.15, body_prefix="b", long_advances=True, list_cmd=True, hostile=False, empty_side=False,
                 switch_blur=None, bad_client_version=True, closings=True):
        self.r = random.Random(seed)
        self.seed = seed
        self.apps = APPS[:napps]
        self.sides = SIDES[:nsides]
        self.names = names or NAMES
        if empty_side:
            self.sides = self.sides[:-1] + [""]
        self.hostile = hostile
        if hostile:
            hs = list(HOSTILE)
            self.r.shuffle(hs)
            self.apps = hs[:napps]
            self.r.shuffle(hs)
            self.sides = hs[:nsides]
            self.r.shuffle(hs)
            self.names = hs[:6] + ["1", "2"]
        # Half of the histories use identifiers that are *distinct but confusable*: they differ only in Unicode
        # normalisation form, only in letter case, only in blanks / non-printable characters / base32 padding,
        # one of them is the empty string, or they carry characters special to formatting / SQL patterns / paths.  For the server every string is its own identifier; a tree that
        # canonicalises, strips, folds or truth-tests them merges or loses objects.
        self.idclass = "plain"
        if not hostile:
            self.idclass = {4: "prefix", 5: "nf", 6: "case", 7: "blank", 8: "empty", 9: "format"}.get(seed % 10, "plain")
        self.nfmix = self.idclass == "nf"
        pair = {"prefix": lambda x: (x + "7", x + "70"),          # one identifier is the beginning of the other
                "nf": lambda x: (x + "\u00e9", x + "e\u0301"),
                "case": lambda x: (x.lower() + "k", x.upper() + "K"),
                "blank": lambda x: (x, [x + "\n", " " + x, x + "\x7f", x + "\u200b", x + "="][seed // 10 % 5]),
                "empty": lambda x: ("", x),
                # characters that mean something to %-formatting, str.format, SQL LIKE/GLOB, shells and paths
                "format": lambda x: [(x + "%2Fx", x + "%sx"), (x + "{0}", x + "{}"), (x + "%", x + "_"), (x + "'", x + '"'),
                                     (x + "*", x + "?"), (x + "/..", x + "\\")][seed // 10 % 6]}.get(self.idclass)
        self.mb_base = ["m1", "m2"]
        self.pair = pair
        if pair is not None:
            if len(self.apps) >= 2:
                self.apps = list(pair("app")) + self.apps[2:]
            if len(self.sides) >= 2 and not empty_side:
                self.sides = list(pair("s")) + self.sides[2:]
            if names is None:
                self.names = self.names + list(pair("n")) + list(pair("4"))
            else:
                self.names = list(self.names) + list(pair(self.names[0]))
        self.steps = steps
        self.p_illegal = p_illegal
        self.restarts = restarts
        self.use_time = use_time
        self.explicit_sweeps = explicit_sweeps
        self.cross_app = cross_app_mailboxes
        self.max_conns = max_conns
        self.p_third = p_third
        self.body_prefix = body_prefix
        self.long_advances = long_advances
        self.list_cmd = list_cmd
        self.switch_blur = switch_blur
        self.bad_client_version = bad_client_version
        self.closings = closings
        self.conns = {}
        self.nconn = 0
        self.nbody = 0
        self.hist = []
        # mailbox values known per app (explicit ids and references to claims)
        self.known_mb = {a: [] for a in self.apps}
        self.known_np = {a: [] for a in self.apps}
        # sides that already used a given mailbox value, to steer away from / into crowding
        self.mb_sides = {}

    def explicit_mb(self, app):
        i = self.apps.index(app)
        if self.hostile:
            base = [HOSTILE[(self.seed + 3) % len(HOSTILE)], HOSTILE[(self.seed + 11) % len(HOSTILE)]]
        elif self.pair is not None:
            # confusable pair of ids (the same mailbox id in two apps is avoided: known finding F8)
            a, b = self.pair("m" if self.cross_app else "m.%d" % i)
            if self.idclass == "empty" and i != 0 and not self.cross_app:
                a = "e.%d" % i
            return [a, b]
        else:
            base = list(self.mb_base)
        if self.cross_app:
            return base
        return ["%s.%d" % (b, i) for b in base]

    def body(self):
        self.nbody += 1
        tail = ""
        if self.nfmix and self.nbody % 2:
            tail = NFC_NFD[self.nbody % len(NFC_NFD)][self.nbody // 2 % 2]
        return "%s%d-%d%s" % (self.body_prefix, self.seed, self.nbody, tail)

    def live(self):
        return [c for c in self.conns.values() if c.alive]

    def emit(self, *step):
        self.hist.append(list(step))

    def pick_side(self, app):
        return self.r.choice(self.sides)

    def gen(self):
        r = self.r
        closing = []            # [connection, events until its drop]
        while len(self.hist) < self.steps:
            for ent in list(closing):
                ent[1] -= 1
                if ent[1] <= 0:
                    closing.remove(ent)
                    self.emit("drop", ent[0].name)
            live = self.live()
            x = r.random()
            if self.closings and r.random() < 0.01:
                self.nconn += 1
                self.emit("halfconn", "h%d" % self.nconn)
                continue
            if live and self.closings and r.random() < 0.03:
                # a client starts the websocket closing handshake; the server learns of the lost connection
                # only a few events later (commands of others are processed in between)
                c = r.choice(live)
                c.alive = False
                self.emit("closing", c.name)
                closing.append([c, r.choice([1, 1, 2, 4])])
                continue
            if not live or (len(live) < self.max_conns and x < 0.12):
                self.new_conn()
                continue
            if x < 0.17:
                c = r.choice(live)
                c.alive = False
                self.emit("drop", c.name)
                continue
            if self.use_time and x < 0.25:
                self.time_step()
                continue
            if self.restarts and x < 0.265:
                for c in live:
                    c.alive = False
                if self.switch_blur and r.random() < 0.6:
                    self.emit("restart", {"blur": r.choice(self.switch_blur)})
                else:
                    self.emit("restart")
                continue
            if self.explicit_sweeps and x < 0.30:
                self.emit("sweep")
                continue
            c = r.choice(live)
            if r.random() < self.p_illegal:
                self.illegal(c)
            else:
                self.legal(c)
        for ent in closing:
            self.emit("drop", ent[0].name)
        return self.hist

    def time_step(self):
        r = self.r
        k = r.random()
        if k < 0.55:
            dt = r.choice([0.125, 0.5, 1, 2, 5])
        elif k < 0.85 or not self.long_advances:
            dt = r.choice([59.875, 100, 299.875, 300, 300.125, 359, 400])
        else:
            dt = r.choice([659.875, 660, 660.125, 700, 961, 1300])
        self.emit("adv", dt)

    def new_conn(self):
        self.nconn += 1
        c = GConn("c%d" % self.nconn)
        self.conns[c.name] = c
        self.emit("connect", c.name)
        if self.r.random() < 0.93:
            self.bind(c)

    def bind(self, c):
        r = self.r
        c.app = r.choice(self.apps)
        c.side = self.pick_side(c.app)
        msg = {"type": "bind", "appid": c.app, "side": c.side}
        k = r.random()
        if k < 0.3:
            msg["client_version"] = [r.choice(["python", "rust", ""]), r.choice(["0.12.0", "1.0", "ü"])]
        elif k < 0.32 and self.bad_client_version:
            # outside the input space: nothing about the answer is judged, the connection is dropped right away
            msg["client_version"] = r.choice(BAD_CLIENT_VERSIONS)
            self.emit("send", c.name, msg)
            self.emit("drop", c.name)
            c.alive = False
            return
        self.emit("send", c.name, self.decorate(msg))

    def decorate(self, msg):
        r = self.r
        if r.random() < 0.35:
            msg["id"] = r.choice(["i%d" % r.randrange(1000), "", "ïd"] + (HOSTILE if self.hostile else []))
        if r.random() < 0.08:
            msg[r.choice(["extra", "x", "server_tx", "orig"])] = r.choice([1, None, "v", [1, 2], {"a": 1}])
        return msg

    def mailbox_choice(self, c):
        r = self.r
        opts = list(self.explicit_mb(c.app)) + list(self.known_mb[c.app])
        if c.claimed is not None and r.random() < 0.7:
            ref = {"$claimed": c.name}
            return ref
        return r.choice(opts)

    def legal(self, c):
        r = self.r
        if c.app is None:
            if r.random() < 0.5:
                self.bind(c)
            else:
                self.emit("send", c.name, self.decorate({"type": "ping", "ping": r.choice([1, 0, -5, "p", None, [1]])}))
            return
        acts = []
        if self.list_cmd:
            acts.append(("list", 1))
        acts.append(("ping", 0.5))
        if not c.allocated and c.claimed is None:
            acts.append(("allocate", 2))
        if c.claimed is None:
            acts.append(("claim", 5))
        if (c.claimed is not None or c.allocated) and not c.released:
            acts.append(("release", 3))
        if not c.released and c.claimed is None:
            acts.append(("release_named", 0.7))
        if c.opened is None and not c.closed:
            acts.append(("open", 5))
        if c.opened is not None and not c.closed:
            acts.append(("add", 6))
            acts.append(("close", 2.5))
        if c.opened is None and not c.closed:
            acts.append(("close_named", 1.0))
        tot = sum(w for _, w in acts)
        x = r.random() * tot
        for a, w in acts:
            x -= w
            if x <= 0:
                break
        getattr(self, "do_" + a)(c)

    def do_list(self, c):
        self.emit("send", c.name, self.decorate({"type": "list"}))

    def do_ping(self, c):
        self.emit("send", c.name, self.decorate({"type": "ping", "ping": self.r.randrange(100)}))

    def do_allocate(self, c):
        c.allocated = True
        self.known_np[c.app].append({"$alloc": c.name})
        self.emit("send", c.name, self.decorate({"type": "allocate"}))

    def np_choice(self, c):
        r = self.r
        if c.allocated and r.random() < 0.8:
            return {"$alloc": c.name}
        k = self.known_np[c.app]
        if k and r.random() < 0.3:
            return r.choice(k)
        return r.choice(self.names)

    def do_claim(self, c):
        v = self.np_choice(c)
        c.claimed = v
        self.known_mb[c.app].append({"$claimed": c.name})
        self.emit("send", c.name, self.decorate({"type": "claim", "nameplate": v}))

    def do_release(self, c):
        c.released = True
        msg = {"type": "release"}
        if c.claimed is None:
            msg["nameplate"] = {"$alloc": c.name}
        elif self.r.random() < 0.5:
            msg["nameplate"] = c.claimed
        self.emit("send", c.name, self.decorate(msg))

    def do_release_named(self, c):
        c.released = True
        self.emit("send", c.name, self.decorate({"type": "release", "nameplate": self.np_choice(c)}))

    def do_open(self, c):
        v = self.mailbox_choice(c)
        c.opened = v
        self.emit("send", c.name, self.decorate({"type": "open", "mailbox": v}))

    def do_add(self, c):
        r = self.r
        msg = {"type": "add", "phase": r.choice(HOSTILE if self.hostile else PHASES), "body": self.body()}
        if self.hostile and r.random() < 0.3:
            msg["body"] = msg["body"] + r.choice(HOSTILE)
        if r.random() < 0.2:
            msg["side"] = r.choice(self.sides + ["evil"])      # decoy
        self.emit("send", c.name, self.decorate(msg))

    def do_close(self, c):
        r = self.r
        c.closed = True
        msg = {"type": "close"}
        if r.random() < 0.5:
            msg["mailbox"] = c.opened
        if r.random() < 0.8:
            msg["mood"] = r.choice(MOODS + (HOSTILE if self.hostile else []))
        self.emit("send", c.name, self.decorate(msg))

    def do_close_named(self, c):
        r = self.r
        c.closed = True
        msg = {"type": "close", "mailbox": self.mailbox_choice(c)}
        if r.random() < 0.6:
            msg["mood"] = r.choice(MOODS)
        self.emit("send", c.name, self.decorate(msg))

    def illegal(self, c):
        r = self.r
        k = r.randrange(12)
        if k == 0:
            msg = {"no": "type"}
        elif k == 1:
            msg = {"type": r.choice(["frobnicate", "", "BIND", "ü"])}
        elif k == 2:
            msg = {"type": "bind", "appid": r.choice(self.apps)} if r.random() < 0.5 else {"type": "bind", "side": "s1"}
        elif k == 3:
            msg = {"type": "bind", "appid": r.choice(self.apps), "side": r.choice(self.sides)}
            if c.app is None:
                c.app, c.side = msg["appid"], msg["side"]
        elif k == 4:
            msg = {"type": "claim"}
        elif k == 5:
            msg = {"type": "open"}
        elif k == 6:
            msg = {"type": "add", "phase": "p"} if r.random() < 0.5 else {"type": "add", "body": self.body()}
        elif k == 7:
            msg = {"type": "ping"}
        elif k == 8:
            msg = {"type": "allocate"}
            if c.app is not None and not c.allocated:
                c.allocated = True
                self.known_np[c.app].append({"$alloc": c.name})
        elif k == 9:
            msg = {"type": "claim", "nameplate": r.choice(self.names)}
            if c.app is not None and c.claimed is None:
                c.claimed = msg["nameplate"]
                self.known_mb[c.app].append({"$claimed": c.name})
        elif k == 10:
            msg = {"type": "close", "mailbox": "other", "mood": "happy"}
            if c.app is not None and c.opened is None:
                msg["mailbox"] = r.choice(self.explicit_mb(c.app))
                c.closed = True
        else:
            msg = {"type": "release", "nameplate": "other"}
        self.emit("send", c.name, self.decorate(msg))


def generate(seed, style=None, **kw):
    if style == "life":
        from .lifegen import LifeGen
        return LifeGen(seed, **kw).gen()
    kw.pop("jumps", None)          # (LifeGen only)
    return Gen(seed, **kw).gen()
