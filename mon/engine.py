"""Bring-up and driving of the *real* mailbox server, in-process, under observation.

The server is built exactly as `twist wormhole-mailbox` builds it
(server_tap.Options -> server_tap.makeService) on real SQLite files.  What this
module adds, all from the outside (no repository change):

  * a virtual clock (time.time and the TimerService's clock move together),
  * an sqlite3 shim inside `database` (connection subclass: commit hooks,
    statement trace, failpoints),
  * an independent read-only reader that dumps every table after every step,
  * recorders on every connection's sendMessage (the client boundary),
  * wrappers on prune_all_apps/dump_stats and a log observer (sweeps, errors),
  * a keyed replacement for `server.random` (replayable allocation choices).

See DESIGN.md section 2.
"""
import os, sys, json, time as _time, types, shutil, hashlib, traceback, random as _random
import sqlite3 as _sqlite3

T0 = 1700000000.0           # virtual epoch; all virtual times are multiples of 1/8 s

REPO = os.environ.get("VERIF_REPO", "/repo")
_SRC = os.path.realpath(os.path.join(REPO, "src"))
if _SRC not in [os.path.realpath(p) for p in sys.path[:1]]:
    sys.path.insert(0, _SRC)
os.environ.setdefault("GIT_OPTIONAL_LOCKS", "0")

_real_time = _time.time
_real_monotonic = _time.monotonic


class Inconclusive(Exception):
    pass


def load_server_modules():
    import wormhole_mailbox_server
    f = os.path.realpath(wormhole_mailbox_server.__file__)
    if not f.startswith(_SRC + os.sep):
        raise Inconclusive("imported %s, not the tree under test %s" % (f, _SRC))
    from wormhole_mailbox_server import server, server_tap, server_websocket, database
    return server, server_tap, server_websocket, database


# ---------------------------------------------------------------------------
# virtual time

class VClock(object):
    def __init__(self):
        self.now = T0
        self.installed = False

    def time(self):
        return self.now

    def install(self):
        if not self.installed:
            _time.time = self.time
            self.installed = True

    def uninstall(self):
        if self.installed:
            _time.time = _real_time
            self.installed = False


VCLOCK = VClock()


# ---------------------------------------------------------------------------
# sqlite shim

class Hooks(object):
    """Process-wide hook points used by the sqlite shim; the current World sets them."""
    world = None


class FaultInjected(Exception):
    pass


class ObservedConnection(_sqlite3.Connection):
    def __init__(self, database, *a, **kw):
        _sqlite3.Connection.__init__(self, database, *a, **kw)
        self.v_path = database
        self.v_closed = False
        w = Hooks.world
        if w is not None:
            w._on_db_connect(self)

    def commit(self):
        w = Hooks.world
        pending = self.in_transaction
        if w is not None and pending:
            w._on_commit(self, "pre")
        _sqlite3.Connection.commit(self)
        if w is not None and pending:
            w._on_commit(self, "post")

    def execute(self, sql, *a):
        w = Hooks.world
        if w is not None:
            w._on_execute(self, sql)
        r = _sqlite3.Connection.execute(self, sql, *a)
        # a connection in autocommit mode commits every write statement by itself: each one is a commit boundary
        if w is not None and self.isolation_level is None and not self.in_transaction \
                and sql.lstrip()[:6].upper() in ("INSERT", "UPDATE", "DELETE"):
            w._on_commit(self, "post")
        return r

    def executescript(self, script):
        w = Hooks.world
        if w is not None:
            w._on_execute(self, "<script>")
        return _sqlite3.Connection.executescript(self, script)

    def close(self):
        self.v_closed = True
        return _sqlite3.Connection.close(self)


class SqliteShim(types.ModuleType):
    def __init__(self):
        types.ModuleType.__init__(self, "sqlite3_shim")

    def __getattr__(self, name):
        return getattr(_sqlite3, name)

    def connect(self, database, *a, **kw):
        kw.setdefault("factory", ObservedConnection)
        w = Hooks.world
        if w is not None and w.busy_timeout is not None:
            kw.setdefault("timeout", w.busy_timeout)
        return _sqlite3.connect(database, *a, **kw)


SHIM = SqliteShim()


# ---------------------------------------------------------------------------
# keyed randomness (replayable allocation choices, independent per app)

class KeyedRandom(object):
    """Replacement for the `random` module inside `server`.

    choice()/randrange() draw from a PRNG keyed by (run seed, app id of the calling
    AppNamespace, per-app call index) over sorted(seq), so that the choices of one
    app do not depend on what other apps do.  `force` (a callable) may override the
    choice (used by C04 to enumerate every outcome)."""

    def __init__(self, seed):
        self.seed = seed
        self.counters = {}
        self.force = None
        self.range_force = None      # "lo" / "hi": every draw from a numeric range returns its smallest / largest outcome
        self.calls = 0

    def _key(self):
        app = None
        try:
            f = sys._getframe(2)
            s = f.f_locals.get("self")
            app = getattr(s, "_app_id", None)
        except Exception:
            pass
        n = self.counters.get(app, 0)
        self.counters[app] = n + 1
        self.calls += 1
        h = hashlib.sha256(repr((self.seed, app, n)).encode("utf-8")).digest()
        return _random.Random(int.from_bytes(h[:8], "big"))

    def choice(self, seq):
        seq = sorted(seq)
        r = self._key()
        if self.force is not None:
            return self.force(seq)
        return seq[r.randrange(len(seq))]

    def randrange(self, *a):
        r = self._key()
        if self.range_force is not None and len(a) == 2:
            return a[0] if self.range_force == "lo" else a[1] - 1
        return r.randrange(*a)

    def randint(self, a, b):
        r = self._key()
        if self.range_force is not None:
            return a if self.range_force == "lo" else b
        return r.randint(a, b)

    def _forced_range(self, *a):
        return None

    def __getattr__(self, name):
        return getattr(_random, name)


# ---------------------------------------------------------------------------
# readers

CHANNEL_TABLES = ("nameplates", "nameplate_sides", "mailboxes", "mailbox_sides", "messages")
USAGE_TABLES = ("nameplates", "mailboxes", "client_versions", "current")


def dump_tables(conn, tables):
    out = {}
    for t in tables:
        try:
            cur = conn.execute("SELECT rowid AS _rowid, * FROM `%s`" % t)
        except _sqlite3.OperationalError as e:
            if "no such table" in str(e):
                out[t] = {}
                continue
            raise
        cols = [c[0] for c in cur.description]
        rows = {}
        for r in cur.fetchall():
            d = dict(zip(cols, r))
            rows[d.pop("_rowid")] = d
        out[t] = rows
    return out


def open_reader(path):
    from urllib.parse import quote
    c = _sqlite3.connect("file:%s?mode=ro" % quote(path), uri=True, timeout=0.05)      # (the path may hold #, ?, %)
    return c


def diff_tables(before, after):
    """-> list of (table, rowid, old_row_or_None, new_row_or_None)"""
    out = []
    for t in after:
        b = before.get(t, {})
        a = after[t]
        for k in b:
            if k not in a:
                out.append((t, k, b[k], None))
            elif a[k] != b[k]:
                out.append((t, k, b[k], a[k]))
        for k in a:
            if k not in b:
                out.append((t, k, None, a[k]))
    return out


# ---------------------------------------------------------------------------

class FakeRequest(object):
    def __init__(self, n):
        self.peer = "tcp4:127.0.0.1:%d" % (40000 + n)
        self.headers = {}
        self.host = "localhost"
        self.path = "/v1"
        self.params = {}
        self.version = 13
        self.origin = None
        self.protocols = []
        self.extensions = []


class FakeTransport(object):
    def __init__(self, conn):
        self.conn = conn

    def loseConnection(self, *a, **kw):
        self.conn.server_drop("transport.loseConnection")

    def abortConnection(self, *a, **kw):
        self.conn.server_drop("transport.abortConnection")

    def write(self, data):
        pass

    def getPeer(self):
        return None


class Conn(object):
    def __init__(self, world, name):
        self.world = world
        self.name = name
        self.p = None
        self.alive = False
        self.closing = False
        self.server_dropped = None

    def server_drop(self, how):
        self.server_dropped = how
        self.world._note_server_drop(self, how)


class Step(object):
    __slots__ = ("i", "t", "kind", "conn", "msg", "frames", "exc", "tb", "before", "after",
                 "ubefore", "uafter", "sweep", "errors", "commits", "drops", "life", "extra",
                 "in_txn_after")

    def __init__(self, i, t, kind, conn=None, msg=None):
        self.i = i
        self.t = t
        self.kind = kind          # start | connect | cmd | drop | sweep | stop | raw
        self.conn = conn          # connection name
        self.msg = msg            # resolved command (dict) for kind == cmd
        self.frames = []          # [(conn name, frame dict)] in emission order
        self.exc = None
        self.tb = None
        self.before = None
        self.after = None
        self.ubefore = None
        self.uafter = None
        self.sweep = None         # {"now":..,"old":..,"exc":..}
        self.errors = []          # logged isError events during the step
        self.commits = 0
        self.drops = []           # server initiated drops [(conn, how)]
        self.life = 0             # service lifetime index
        self.extra = {}
        self.in_txn_after = False

    def brief(self):
        d = {"i": self.i, "t": self.t - T0, "kind": self.kind}
        if self.conn is not None:
            d["conn"] = self.conn
        if self.msg is not None:
            d["msg"] = self.msg
        if self.frames:
            d["frames"] = [(c, {k: v for k, v in f.items() if k != "server_tx"}) for c, f in self.frames]
        if self.exc:
            d["exc"] = self.exc
        if self.sweep:
            d["sweep"] = {"now": self.sweep["now"] - T0, "exc": self.sweep.get("exc")}
        if self.errors:
            d["errors"] = self.errors
        return d


class Config(object):
    def __init__(self, usage=True, blur=None, allow_list=True, motd=None, advertise=None,
                 signal_error=None, log_fd=False):
        self.usage = usage
        self.blur = blur
        self.allow_list = allow_list
        self.motd = motd
        self.advertise = advertise
        self.signal_error = signal_error
        self.log_fd = log_fd          # --log-fd=<write end of a pipe whose reader has gone away>

    def key(self):
        return (self.usage, self.blur, self.allow_list, self.motd, self.advertise, self.signal_error, self.log_fd)

    def to_json(self):
        return {"usage": self.usage, "blur": self.blur, "allow_list": self.allow_list,
                "motd": self.motd, "advertise": self.advertise, "signal_error": self.signal_error, "log_fd": self.log_fd}

    @classmethod
    def from_json(cls, d):
        return cls(**d)

    def expected_welcome(self):
        w = {}
        if self.motd is not None:
            w["motd"] = self.motd
        if self.advertise:
            w["current_cli_version"] = self.advertise
        if self.signal_error:
            w["error"] = self.signal_error
        return w


def scratch_root():
    for d in ("/dev/shm", os.environ.get("TMPDIR", "/tmp")):
        if os.path.isdir(d) and os.access(d, os.W_OK):
            return d
    return "/tmp"


class World(object):
    """One server on one pair of database files, across any number of service lifetimes."""

    def __init__(self, workdir, cfg=None, seed=0, monitors=(), dump_every_step=True):
        self.mods = load_server_modules()
        self.server_mod, self.tap_mod, self.ws_mod, self.db_mod = self.mods
        self.workdir = workdir
        os.makedirs(workdir, exist_ok=True)
        self.cfg = cfg or Config()
        self.seed = seed
        self.channel_path = os.path.join(workdir, "channel.sqlite")
        self.usage_path = os.path.join(workdir, "usage.sqlite")
        self.monitors = list(monitors)
        self.steps = []
        self.conns = {}
        self.nconn = 0
        self.parent = None
        self.server = None
        self.factory = None
        self.timer = None
        self.clock = None
        self.life = 0
        self.db_conns = []          # every sqlite connection the server opened (current lifetime)
        self.cur = None             # step in progress
        self.reader = None
        self.ureader = None
        self.busy_timeout = None
        self.dump_every_step = dump_every_step
        self.krandom = KeyedRandom(seed)
        # hooks for checks
        self.commit_hooks = []      # f(world, dbconn, phase)
        self.execute_hooks = []     # f(world, dbconn, sql)
        self.frame_hooks = []       # f(world, conn, frame)
        self.counters = {"commits": 0, "frames": 0, "steps": 0, "sweeps": 0, "statements": 0}
        self.running = False
        # work the server defers to "the next reactor turn" (reactor.callLater): collected on a private clock that
        # follows virtual time.  pump_mode "eager": run at the end of the step that scheduled it (its frames count as
        # part of that step); "lazy": run at the end of the *next* step, i.e. another command is processed in between
        self.gclock = None
        self.pump_mode = "eager"
        self._older_calls = []
        self.counters["deferred_calls_run"] = 0
        self._log_obs = None
        self._orig_sqlite = None
        self._orig_random = None
        self.rebooted = None

    # -- installation of shims ------------------------------------------------
    def _install(self):
        Hooks.world = self
        VCLOCK.install()
        if self.db_mod.sqlite3 is not SHIM:
            self._orig_sqlite = self.db_mod.sqlite3
            self.db_mod.sqlite3 = SHIM
        if getattr(self.server_mod, "random", None) is not self.krandom:
            self.server_mod.random = self.krandom
        from twisted.internet import reactor, task
        if self.gclock is None:
            self.gclock = task.Clock()
        if not hasattr(reactor, "_verif_real_callLater"):
            reactor._verif_real_callLater = reactor.callLater
        reactor.callLater = self._call_later

    def _call_later(self, delay, f, *a, **kw):
        return self.gclock.callLater(delay, f, *a, **kw)

    def _pump(self):
        """Run deferred calls that are due (see pump_mode)."""
        if self.gclock is None:
            return
        if self.pump_mode == "hold":
            # a burst: several frames of one TCP segment are handled in one reactor turn, nothing deferred runs in between
            return
        if self.pump_mode == "eager":
            for _ in range(1000):
                due = [c for c in self.gclock.getDelayedCalls() if c.getTime() <= self.gclock.seconds()]
                if not due:
                    break
                self.counters["deferred_calls_run"] += len(due)
                self.gclock.advance(0)
        else:
            older, self._older_calls = self._older_calls, []
            for c in older:
                if c.active() and c.getTime() <= self.gclock.seconds():
                    f, a, kw = c.func, c.args, c.kw
                    c.cancel()
                    self.counters["deferred_calls_run"] += 1
                    f(*a, **kw)
            self._older_calls = [c for c in self.gclock.getDelayedCalls()]

    @property
    def now(self):
        return VCLOCK.now

    def set_time(self, t):
        VCLOCK.now = t

    # -- sqlite hook targets --------------------------------------------------
    def _on_db_connect(self, c):
        self.db_conns.append(c)

    def _on_commit(self, c, phase):
        if phase == "post":
            self.counters["commits"] += 1
            if self.cur is not None:
                self.cur.commits += 1
        for h in self.commit_hooks:
            h(self, c, phase)

    def _on_execute(self, c, sql):
        self.counters["statements"] += 1
        for h in self.execute_hooks:
            h(self, c, sql)

    def server_db_conns(self):
        return [c for c in self.db_conns if not c.v_closed]

    def channel_conn(self):
        for c in self.server_db_conns():
            if c.v_path == self.channel_path:
                return c
        return None

    def usage_conn(self):
        for c in self.server_db_conns():
            if c.v_path == self.usage_path:
                return c
        return None

    def any_in_transaction(self):
        return [c.v_path for c in self.server_db_conns() if c.in_transaction]

    def pending_changes(self):
        """Tables whose content as a server connection inside a transaction sees it differs from what the
        independent reader sees (= changes that are pending, not merely a transaction that was left open)."""
        out = []
        for c in self.server_db_conns():
            if not c.in_transaction:
                continue
            if c.v_path == self.channel_path:
                reader, tables = self.reader, CHANNEL_TABLES
            elif c.v_path == self.usage_path:
                reader, tables = self.ureader, USAGE_TABLES
            else:
                continue
            if reader is None:
                continue
            for t in tables:
                q = "SELECT rowid, * FROM `%s` ORDER BY rowid" % t
                cur = _sqlite3.Connection.cursor(c)
                cur.row_factory = None
                mine = [tuple(r) for r in cur.execute(q).fetchall()]
                rc = reader.cursor()
                rc.row_factory = None
                theirs = [tuple(r) for r in rc.execute(q).fetchall()]
                if mine != theirs:
                    out.append(t)
        return out

    # -- lifecycle --------------------------------------------------------------
    def options(self):
        a = ["--port=tcp:0:interface=127.0.0.1", "--channel-db=" + self.channel_path]
        if self.cfg.usage:
            a.append("--usage-db=" + self.usage_path)
        if self.cfg.blur is not None:
            a.append("--blur-usage=%d" % self.cfg.blur)
        if not self.cfg.allow_list:
            a.append("--disallow-list")
        if self.cfg.motd is not None:
            a.append("--motd=" + self.cfg.motd)
        if self.cfg.advertise is not None:
            a.append("--advertise-version=" + self.cfg.advertise)
        if self.cfg.signal_error is not None:
            a.append("--signal-error=" + self.cfg.signal_error)
        if getattr(self.cfg, "log_fd", False):
            # the operator's log consumer has exited: every write to the descriptor fails with EPIPE
            r, w = os.pipe()
            os.close(r)
            a.append("--log-fd=%d" % w)
        return a

    def start(self, start_timer=True):
        """makeService + startService.  The start-up sweep is recorded as its own step."""
        from twisted.internet import task
        from twisted.application.internet import TimerService, StreamServerEndpointService
        from twisted.python import log
        self._install()
        self.life += 1
        self.db_conns = [c for c in self.db_conns if not c.v_closed]
        o = self.tap_mod.Options()
        o.parseOptions(self.options())
        st = self._begin("start")
        try:
            parent = self.tap_mod.makeService(o)
        except Exception as e:
            st.exc = "%s: %s" % (type(e).__name__, e)
            st.tb = traceback.format_exc()
            self._open_readers()
            self._end(st)
            raise
        self.rebooted = self.now
        self.parent = parent
        self.clock = task.Clock()
        self.timer = None
        for s in list(parent):
            if isinstance(s, TimerService):
                s.clock = self.clock
                self.timer = s
            elif isinstance(s, self.server_mod.Server):
                self.server = s
            elif isinstance(s, StreamServerEndpointService):
                site = s.factory
                s.disownServiceParent()
                self.factory = site.resource.children[b"v1"]._factory
        if self.server is None or self.factory is None or self.timer is None:
            raise Inconclusive("service layout not recognised")
        # the oracles are written for the documented constants (expiry 11 min, sweep every 5 min); a tree that
        # configures other values is not judged against the wrong numbers: inconclusive, unless the values
        # themselves break the stated relation (expiration must exceed the period), which the oracles will show
        exp = getattr(self.tap_mod, "CHANNEL_EXPIRATION_TIME", 660.0)
        per = getattr(self.tap_mod, "EXPIRATION_CHECK_PERIOD", 300.0)
        if (exp, per) != (660.0, 300.0) and exp > per:
            raise Inconclusive("expiration constants are %r/%r, the checks are written for 660/300" % (exp, per))
        self._wrap_server()
        if self._log_obs is None:
            self._log_obs = self._observe_log
            log.addObserver(self._log_obs)
        self._open_readers()
        self._end(st)
        self.running = True
        # the start-up sweep
        if start_timer:
            sw = self._begin("sweep")
            sw.extra["startup"] = True
            try:
                parent.startService()
            except Exception as e:
                sw.exc = "%s: %s" % (type(e).__name__, e)
                sw.tb = traceback.format_exc()
            self._end(sw)
        else:
            # start everything but the timer (C11 drives sweeps explicitly)
            self.timer.disownServiceParent()
            parent.startService()
        return self

    def _wrap_server(self):
        srv = self.server
        orig_prune = srv.prune_all_apps
        orig_dump = srv.dump_stats
        world = self

        def prune_all_apps(now, old):
            world.counters["sweeps"] += 1
            rec = {"now": now, "old": old, "exc": None, "life": world.life}
            if world.cur is not None:
                if world.cur.sweep is None:
                    world.cur.sweep = rec
                else:
                    world.cur.extra.setdefault("more_sweeps", []).append(rec)
            try:
                return orig_prune(now, old)
            except Exception as e:
                rec["exc"] = "%s: %s" % (type(e).__name__, e)
                rec["tb"] = traceback.format_exc()
                raise

        def dump_stats(now, rebooted):
            if world.cur is not None:
                world.cur.extra["dump_stats"] = {"now": now, "rebooted": rebooted}
            return orig_dump(now, rebooted)

        srv.prune_all_apps = prune_all_apps
        srv.dump_stats = dump_stats

    def _observe_log(self, ev):
        if ev.get("isError"):
            txt = ""
            f = ev.get("failure")
            if f is not None:
                try:
                    txt = "%s: %s" % (f.type.__name__, f.value)
                except Exception:
                    txt = repr(f)
            else:
                txt = " ".join(str(m) for m in ev.get("message", ()))
            if self.cur is not None:
                self.cur.errors.append(txt)

    def _open_readers(self):
        self._close_readers()
        if os.path.exists(self.channel_path):
            self.reader = open_reader(self.channel_path)
        if self.cfg.usage and os.path.exists(self.usage_path):
            self.ureader = open_reader(self.usage_path)

    def _close_readers(self):
        for r in (self.reader, self.ureader):
            if r is not None:
                try:
                    r.close()
                except Exception:
                    pass
        self.reader = self.ureader = None

    def dump(self):
        if self.reader is None:
            return {t: {} for t in CHANNEL_TABLES}
        return dump_tables(self.reader, CHANNEL_TABLES)

    def udump(self):
        if self.ureader is None:
            return {t: {} for t in USAGE_TABLES}
        return dump_tables(self.ureader, USAGE_TABLES)

    def stop(self, drop_conns=True):
        """Clean shutdown: drop connections, stopService, close the database connections."""
        if drop_conns:
            for name in [n for n, c in self.conns.items() if c.alive]:
                self.drop(name)
        st = self._begin("stop")
        try:
            if self.parent is not None and self.running:
                self.parent.stopService()
        except Exception as e:
            st.exc = "%s: %s" % (type(e).__name__, e)
            st.tb = traceback.format_exc()
        self.running = False
        for c in self.server_db_conns():
            try:
                c.close()
            except Exception:
                pass
        self._end(st)
        self.parent = self.server = self.factory = self.timer = None

    def abandon(self):
        """Process death: nothing of the service runs again; open transactions are lost."""
        for c in self.conns.values():
            c.alive = False
        self.running = False
        for c in self.server_db_conns():
            try:
                c.close()       # closing without commit == rollback == what the next opener does
            except Exception:
                pass
        self.parent = self.server = self.factory = self.timer = None

    def restart(self):
        self.stop()
        return self.start()

    def close(self):
        from twisted.python import log
        try:
            if self.running:
                self.stop()
        finally:
            self._close_readers()
            for c in self.server_db_conns():
                try:
                    c.close()
                except Exception:
                    pass
            if self._log_obs is not None:
                try:
                    log.removeObserver(self._log_obs)
                except Exception:
                    pass
                self._log_obs = None
            if Hooks.world is self:
                Hooks.world = None
            try:
                from twisted.internet import reactor
                if getattr(reactor, "callLater", None) == self._call_later:
                    reactor.callLater = reactor._verif_real_callLater
            except Exception:
                pass

    # -- steps --------------------------------------------------------------------
    def _begin(self, kind, conn=None, msg=None):
        st = Step(len(self.steps), self.now, kind, conn, msg)
        st.life = self.life
        if not self.dump_every_step:
            st.before = st.ubefore = None
        elif self.steps and self.steps[-1].after is not None:
            st.before = self.steps[-1].after
            st.ubefore = self.steps[-1].uafter
        else:
            st.before = self.dump()
            st.ubefore = self.udump()
        self.cur = st
        for m in self.monitors:
            m.on_begin(self, st)
        return st

    def _end(self, st):
        st.in_txn_after = bool(self.any_in_transaction())
        try:
            if self.dump_every_step:
                st.after = self.dump()
                st.uafter = self.udump()
        except _sqlite3.OperationalError as e:
            # reader blocked: a writer holds the file (only in lock-injection runs)
            st.after = st.before
            st.uafter = st.ubefore
            st.extra["reader_error"] = str(e)
        self.cur = None
        self.steps.append(st)
        self.counters["steps"] += 1
        for m in self.monitors:
            m.on_step(self, st)
        return st

    def _on_frame(self, conn, payload, is_binary):
        frame = json.loads(payload.decode("utf-8"))
        self.counters["frames"] += 1
        st = self.cur
        if st is not None:
            st.frames.append((conn.name, frame))
        for h in self.frame_hooks:
            h(self, conn, frame)
        for m in self.monitors:
            m.on_frame(self, st, conn.name, frame)

    def _note_server_drop(self, conn, how):
        if self.cur is not None:
            self.cur.drops.append((conn.name, how))

    def connect(self, name=None):
        self.nconn += 1
        name = name or ("c%d" % self.nconn)
        conn = Conn(self, name)
        st = self._begin("connect", name)
        try:
            p = self.factory.buildProtocol(None)
            p.factory = self.factory
            conn.p = p
            # autobahn's own precondition is kept: sending on a connection that is not OPEN (e.g. one whose
            # closing handshake has begun) raises Disconnected - see begin_close()
            p.state = p.STATE_OPEN
            p.droppedByMe = False       # autobahn: True when the server itself tore the TCP connection down
            p.wasClean = False

            def _send_message(payload, isBinary=False, **kw):
                if p.state != p.STATE_OPEN:
                    from autobahn.exception import Disconnected
                    raise Disconnected("Attempt to send on a closed protocol")
                return self._on_frame(conn, payload, isBinary)
            p.sendMessage = _send_message
            p.sendClose = lambda *a, **kw: conn.server_drop("sendClose")
            p.dropConnection = lambda *a, **kw: conn.server_drop("dropConnection")
            p.transport = FakeTransport(conn)
            conn.alive = True
            self.conns[name] = conn
            p.onConnect(FakeRequest(self.nconn))
            p.onOpen()
            self._pump()
        except Exception as e:
            st.exc = "%s: %s" % (type(e).__name__, e)
            st.tb = traceback.format_exc()
        self._end(st)
        return conn

    def send(self, name, msg):
        # alternate between \uXXXX-escaped and raw UTF-8 JSON (both are what real clients send)
        self._nsend = getattr(self, "_nsend", 0) + 1
        try:
            payload = json.dumps(msg, ensure_ascii=bool(self._nsend % 2)).encode("utf-8")
        except UnicodeEncodeError:
            payload = json.dumps(msg).encode("utf-8")
        return self.send_raw(name, payload, msg)

    def send_raw(self, name, payload, msg=None):
        conn = self.conns[name]
        st = self._begin("cmd", name, msg)
        st.extra["payload_len"] = len(payload)
        if not conn.alive or conn.closing:
            # (autobahn ignores data frames that arrive after the peer's Close frame)
            st.extra["dead"] = True
            self._end(st)
            return st
        try:
            conn.p.onMessage(payload, False)
            self._pump()
        except Exception as e:
            st.exc = "%s: %s" % (type(e).__name__, e)
            st.tb = traceback.format_exc()
            # a real connection is dropped by autobahn/Twisted when onMessage raises
            try:
                conn.p.onClose(False, 1011, "internal error")
            except Exception as e2:
                st.extra["onclose_exc"] = repr(e2)
            conn.alive = False
        self._end(st)
        return st

    def _close_args(self, conn):
        """What autobahn passes to onClose: after a closing handshake (wasClean) the peer's close code, which is None
        for an empty Close frame, and its reason; after an abrupt loss of the TCP connection wasClean=False, 1006."""
        k = int(hashlib.sha256(repr((self.seed, conn.name, len(self.steps))).encode()).hexdigest()[:6], 16)
        if conn.closing or k % 4 == 0:
            code = [1000, None, 1001, 3000, 1000][k // 4 % 5]
            return (True, code, [None, "", "bye", None][k // 20 % 4] if code is not None else None)
        if k % 3 == 1:
            # the server gave up on a half-open connection (keep-alive ping timeout): it dropped the TCP connection itself
            conn.p.droppedByMe = True
            return (False, 1006, "connection was closed uncleanly (WebSocket ping timeout (peer did not respond with pong in time))")
        return (False, 1006, "connection was closed uncleanly (peer dropped the TCP connection without previous WebSocket closing handshake)")

    def drop(self, name):
        conn = self.conns[name]
        st = self._begin("drop", name)
        if conn.alive:
            try:
                conn.p.state = conn.p.STATE_CLOSED
                args = self._close_args(conn)
                conn.p.wasClean = args[0]
                st.extra["onClose"] = args[:2]
                conn.p.onClose(*args)
                self._pump()
            except Exception as e:
                st.exc = "%s: %s" % (type(e).__name__, e)
                st.tb = traceback.format_exc()
            conn.alive = False
        self._end(st)
        return st

    def half_connection(self, name=None):
        """A TCP connection to the websocket port that never completes the handshake (a port scanner, a plain HTTP GET of
        /v1, a load balancer's health check) and goes away: autobahn calls onClose on a protocol that never saw onOpen."""
        self.nconn += 1
        name = name or ("h%d" % self.nconn)
        conn = Conn(self, name)
        st = self._begin("halfconn", name)
        try:
            p = self.factory.buildProtocol(None)
            p.factory = self.factory
            conn.p = p
            p.sendMessage = lambda payload, isBinary=False, **kw: self._on_frame(conn, payload, isBinary)
            p.transport = FakeTransport(conn)
            self.conns[name] = conn
            p.state = p.STATE_CLOSED
            p.onClose(False, 1006, "connection was closed uncleanly (peer dropped the TCP connection without previous WebSocket opening handshake)")
            self._pump()
        except Exception as e:
            st.exc = "%s: %s" % (type(e).__name__, e)
            st.tb = traceback.format_exc()
        self._end(st)
        return st

    def begin_close(self, name):
        """The client's Close frame has been processed (autobahn: state CLOSING, reply sent, TCP teardown requested)
        but the connection is not lost yet: onClose comes with the later drop().  Verified against the real
        process over TCP (wire.closing_handshake_case): in that window sendMessage raises Disconnected."""
        conn = self.conns[name]
        st = self._begin("closing", name)
        if conn.alive:
            conn.p.state = conn.p.STATE_CLOSING
            conn.closing = True
        self._end(st)
        return st

    def advance(self, dt):
        """Advance virtual time by dt, firing the service timer at its exact instants."""
        target = self.now + dt
        fired = []
        while True:
            calls = self.clock.getDelayedCalls() if (self.clock and self.running) else []
            nxt = min([c.getTime() for c in calls], default=None)
            if nxt is None:
                break
            # the Clock counts from 0 at the start of this service lifetime
            nxt_abs = self._life_t0() + nxt
            if nxt_abs > target:
                break
            self.set_time(nxt_abs)
            st = self._begin("sweep")
            try:
                self.clock.advance(nxt - self.clock.seconds())
            except Exception as e:
                st.exc = "%s: %s" % (type(e).__name__, e)
                st.tb = traceback.format_exc()
            self._end(st)
            fired.append(st)
        if self.clock is not None and self.running:
            rest = (target - self._life_t0()) - self.clock.seconds()
            if rest > 0:
                self.clock.advance(rest)
        self.set_time(target)
        if self.gclock is not None:
            if self.gclock.getDelayedCalls():
                st = self._begin("turn")
                try:
                    self.gclock.advance(dt)
                except Exception as e:
                    st.exc = "%s: %s" % (type(e).__name__, e)
                    st.tb = traceback.format_exc()
                self._end(st)
            else:
                self.gclock.advance(dt)
        return fired

    def jump(self, dt):
        """The process was suspended (or the reactor was busy) for dt: the clock moves on in one go and the service's
        LoopingCall fires once, late, however many periods have passed (then it is back on its old phase)."""
        target = self.now + dt
        due = False
        if self.clock is not None and self.running:
            calls = self.clock.getDelayedCalls()
            nxt = min([c.getTime() for c in calls], default=None)
            due = nxt is not None and self._life_t0() + nxt <= target
        self.set_time(target)
        if self.clock is not None and self.running:
            delta = (target - self._life_t0()) - self.clock.seconds()
            if due:
                st = self._begin("sweep")
                try:
                    self.clock.advance(delta)
                except Exception as e:
                    st.exc = "%s: %s" % (type(e).__name__, e)
                    st.tb = traceback.format_exc()
                self._end(st)
            elif delta > 0:
                self.clock.advance(delta)
        if self.gclock is not None:
            self.gclock.advance(dt)

    def pump_rounds(self, n=1):
        """Run n reactor turns' worth of deferred calls (each round: the calls due now, not the ones they schedule)."""
        st = self._begin("turn")
        try:
            for _ in range(n):
                due = [c for c in self.gclock.getDelayedCalls() if c.getTime() <= self.gclock.seconds()]
                for c in due:
                    if c.active():
                        f, a, kw = c.func, c.args, c.kw
                        c.cancel()
                        self.counters["deferred_calls_run"] += 1
                        f(*a, **kw)
        except Exception as e:
            st.exc = "%s: %s" % (type(e).__name__, e)
            st.tb = traceback.format_exc()
        self._older_calls = [c for c in self.gclock.getDelayedCalls()]
        self._end(st)
        return st

    def _life_t0(self):
        return self.rebooted

    def explicit_sweep(self):
        """Call the real expire() closure now (C11: sweeps as history events)."""
        st = self._begin("sweep")
        st.extra["explicit"] = True
        try:
            self.timer.call[0]()
        except Exception as e:
            st.exc = "%s: %s" % (type(e).__name__, e)
            st.tb = traceback.format_exc()
        self._end(st)
        return st

    def alive_conns(self):
        return [n for n, c in self.conns.items() if c.alive]

    def pragmas(self):
        out = {}
        for c in self.server_db_conns():
            out[os.path.basename(c.v_path)] = {
                "synchronous": c.execute("PRAGMA synchronous").fetchone(),
                "journal_mode": c.execute("PRAGMA journal_mode").fetchone(),
                "foreign_keys": c.execute("PRAGMA foreign_keys").fetchone(),
                "isolation_level": c.isolation_level,
            }
        for k, v in out.items():
            for kk in ("synchronous", "journal_mode", "foreign_keys"):
                x = v[kk]
                if isinstance(x, dict):
                    x = list(x.values())[0]
                elif isinstance(x, (tuple, list)):
                    x = x[0]
                v[kk] = x
        return out


class Monitor(object):
    """Base class: online observers of a World."""
    def on_begin(self, world, step):
        pass

    def on_frame(self, world, step, conn, frame):
        pass

    def on_step(self, world, step):
        pass


def new_workdir(tag="w"):
    import tempfile
    return tempfile.mkdtemp(prefix="verif-%s-" % tag, dir=scratch_root())


def rmtree(path):
    shutil.rmtree(path, ignore_errors=True)
