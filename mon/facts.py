"""Facts tracker + single-run oracles (DESIGN.md 2.4 and section 3).

The tracker derives facts from commands sent and frames received; deletion events
come from the observed state trace (independent reader).  Oracles evaluate on every
step and record violations as {props, kind, step, detail}.  Nothing here predicts
what the server stores beyond what the properties state; where a statement leaves
an outcome open the object is tainted (don't-care) and that is counted.
"""
import re
from collections import Counter, defaultdict
from .engine import Monitor, diff_tables, T0
from .proto import ConnModel, REJECTED, VALID, AMBIGUOUS

from .model import *
from .model import _short, _tail, _d
from .facts_cmd import CmdMixin
from .facts_mbox import MboxMixin
from .facts_sweep import SweepMixin


def outside_input_space(msg):
    if isinstance(msg, dict) and msg.get("type") == "bind" and "client_version" in msg:
        cv = msg["client_version"]
        return not (isinstance(cv, (list, tuple)) and len(cv) >= 2)
    return False


class Tracker(CmdMixin, MboxMixin, SweepMixin, Monitor):
    def __init__(self, cfg, run_id="r"):
        self.cfg = cfg
        self.run_id = run_id
        self.cm = {}                       # conn name -> ConnModel
        self.mb = {}                       # (app, mid) -> MbInc (current)
        self.np = {}                       # (app, name) -> NpInc (current)
        self.msgs = defaultdict(list)      # (app, mid) -> [(side, phase, body, id, rx)]
        self.f8_dangling = False
        self.lost_np = {}                # (app, name) -> (mailbox id, holders) of a nameplate that vanished wrongly
        self._np_before = {}
        self.np_ever = set()                # (app, name) of every nameplate incarnation there ever was
        self.retired_np = {}               # (app, name) -> mailbox id of an incarnation that ended by its last release
        self.mid_owner = {}                # mailbox id -> (app, name, n) nameplate incarnation it was answered for
        self.inc_counter = 0
        self.violations = []
        self.ev = Counter()                # oracle evaluations by kind
        self.dontcare = Counter()
        self.shapes = set()                # distinct abstract store shapes seen
        self.pstates = set()               # distinct per-connection protocol states seen
        self.ambiguous = Counter()
        self.sweeps_by_life = defaultdict(list)
        self.known = []                    # known-finding events [(id, step, detail)]
        self.halted = False                # after an internal failure the history is cut
        self.last_activity_all_gone = None
        self.usage_on = cfg.usage
        self.blur = cfg.blur
        self.first_bind = {}
        self.enabled = True

    # ------------------------------------------------------------------
    def flag(self, props, kind, st, detail):
        self.violations.append({"props": sorted(props), "kind": kind,
                                "step": st.i if st is not None else None,
                                "detail": detail})

    def known_finding(self, fid, props, st, detail):
        self.known.append({"id": fid, "props": sorted(props), "step": st.i, "detail": detail})

    def _new_n(self):
        self.inc_counter += 1
        return self.inc_counter

    # ------------------------------------------------------------------
    def on_frame(self, world, st, conn, frame):
        # C17: every frame carries its type and a send timestamp
        self.ev["frame_shape"] += 1
        if not isinstance(frame.get("type"), str):
            self.flag({"C17"}, "frame without type", st, {"conn": conn, "frame": frame})
        tx = frame.get("server_tx")
        if not isinstance(tx, (int, float)) or isinstance(tx, bool):
            self.flag({"C17"}, "frame without numeric server_tx", st, {"conn": conn, "frame": frame})
        elif tx != world.now:
            self.flag({"C17"}, "server_tx is not the send time", st,
                      {"conn": conn, "frame": frame, "now": world.now})
        if st is not None and st.kind == "cmd":
            self._effects_at_emission(world, st, conn, frame)
        # C09: nothing is pending when a frame leaves
        self.ev["c09_no_txn_at_frame"] += 1
        pend = world.any_in_transaction()
        if pend and self.f8_dangling:
            self.dontcare["c09_window_after_known_F8"] += 1
            # the known failure leaves an *empty* transaction open; changes that later commands leave pending in it are not part of it
            tabs = world.pending_changes()
            if tabs:
                self.flag({"C09"}, "frame emitted while changes are pending in the transaction left open after the known cross-app failure", st,
                          {"conn": conn, "frame": _short(frame), "tables": tabs})
        elif pend:
            self.flag({"C09"}, "frame emitted inside an open transaction", st,
                      {"conn": conn, "frame": _short(frame), "pending": pend})

    def _effects_at_emission(self, world, st, conn, frame):
        """C09 (c) / C04: what a frame acknowledges is already visible to an independent reader
        at the instant the frame leaves (the reader sees committed state only)."""
        t = frame.get("type")
        if t not in ("allocated", "claimed", "released", "closed", "message") or world.reader is None:
            return
        cm = self.cm.get(st.conn)
        msg = st.msg if isinstance(st.msg, dict) else {}
        if cm is None or not cm.bound:
            return
        q = world.reader.execute
        ok = True
        what = None
        try:
            if t == "message":
                if msg.get("type") != "add":
                    return
                self.ev["c09_emit_message"] += 1
                n = q("SELECT COUNT(*) FROM messages WHERE app_id=? AND body=? AND side=?",
                      (cm.app, frame.get("body"), frame.get("side"))).fetchone()[0]
                ok = n >= 1
                what = "message delivered before it was committed"
            elif t in ("allocated", "claimed") and conn == st.conn:
                name = frame.get("nameplate") if t == "allocated" else msg.get("nameplate")
                self.ev["c09_emit_" + t] += 1
                n = q("SELECT COUNT(*) FROM nameplates n JOIN nameplate_sides s ON s.nameplates_id=n.id"
                      " WHERE n.app_id=? AND n.name=? AND s.side=? AND s.claimed=1", (cm.app, name, cm.side)).fetchone()[0]
                ok = n >= 1
                if ok and t == "claimed":
                    n2 = q("SELECT COUNT(*) FROM mailbox_sides WHERE mailbox_id=? AND side=?",
                           (frame.get("mailbox"), cm.side)).fetchone()[0]
                    ok = n2 >= 1
                what = "%s sent before the claim was committed" % t
            elif t == "released" and conn == st.conn:
                name = msg.get("nameplate", cm.claim_name)
                self.ev["c09_emit_released"] += 1
                n = q("SELECT COUNT(*) FROM nameplates n JOIN nameplate_sides s ON s.nameplates_id=n.id"
                      " WHERE n.app_id=? AND n.name=? AND s.side=? AND s.claimed=1", (cm.app, name, cm.side)).fetchone()[0]
                ok = n == 0
                what = "released sent before the release was committed"
            elif t == "closed" and conn == st.conn:
                mid = msg.get("mailbox", cm.opened_id)
                self.ev["c09_emit_closed"] += 1
                n = q("SELECT COUNT(*) FROM mailbox_sides s JOIN mailboxes m ON m.id=s.mailbox_id"
                      " WHERE m.app_id=? AND s.mailbox_id=? AND s.side=? AND s.opened=1", (cm.app, mid, cm.side)).fetchone()[0]
                ok = n == 0
                what = "closed sent before the close was committed"
        except Exception as e:
            self.dontcare["c09_reader_error"] += 1
            return
        if not ok:
            props = {"C09"}
            if t == "allocated":
                props.add("C04")
            self.flag(props, what, st, {"conn": conn, "frame": _short(frame), "msg": _short(msg)})

    # ------------------------------------------------------------------
    def on_step(self, world, st):
        if not self.enabled:
            return
        nv0 = len(self.violations)
        self._np_before = dict(self.np)
        d = diff_tables(st.before, st.after)
        ud = diff_tables(st.ubefore, st.uafter) if self.usage_on else []
        st.extra["diff"] = d
        st.extra["udiff"] = ud
        f8 = False
        if st.exc and st.kind == "cmd" and "UNIQUE constraint failed: mailboxes.id" in st.exc \
                and isinstance(st.msg, dict) and st.msg.get("type") in ("open", "close"):
            cm = self.cm.get(st.conn)
            mid = st.msg.get("mailbox")
            if mid is None and cm is not None and st.msg.get("type") == "close":
                mid = cm.opened_id          # a close without a name is about the id this connection opened
            if cm is not None and any(r["id"] == mid and r["app_id"] != cm.app for r in st.before["mailboxes"].values()):
                f8 = True
                self.known_finding("F8", {"C06", "C17"}, st, {"cmd": st.msg.get("type"), "exc": st.exc,
                                                              "mailbox_stored_under_another_app": True})
        outside = st.kind == "cmd" and outside_input_space(st.msg)
        if outside:
            # a bind whose client_version is not the documented pair: whatever the server answers (today it fails
            # internally) is not judged by any property; what it leaves behind for later commands is
            self.dontcare["bind_with_malformed_client_version"] += 1
        if st.exc and st.kind in ("cmd", "connect", "drop", "turn", "closing", "halfconn") and not f8 and not outside:
            # the command's own guarantee is broken too (close always completes, release is always answered, ...)
            own = {"close": "C08", "release": "C07", "claim": "C03", "open": "C01", "add": "C02", "allocate": "C04", "list": "C18"}
            t = st.msg.get("type") if isinstance(st.msg, dict) else None
            cm = self.cm.get(st.conn)
            cls = cm.classify(st.msg)[0] if (cm is not None and st.kind == "cmd") else None
            extra = {own[t]} if (t in own and cls == VALID) else set()
            self.flag({"C17"} | extra, "internal failure in handler", st,
                      {"exc": st.exc, "msg": st.msg, "tb": _tail(st.tb)})
        for (c, how) in st.drops:
            also = set()
            victim, actor = self.cm.get(c), self.cm.get(st.conn) if st.conn else None
            if victim is not None and c != st.conn:
                if victim.sub is not None:
                    also.add("C02")         # a subscriber is cut off by somebody else's command
                actor_app = None
                if actor is not None:
                    actor_app = actor.app if actor.bound else (st.msg.get("appid") if isinstance(st.msg, dict) and st.msg.get("type") == "bind" else None)
                if actor_app is not None and victim.bound and actor_app != victim.app:
                    also.add("C06")         # ... of another app
            self.flag({"C17"} | also, "server dropped the connection", st, {"conn": c, "how": how, "msg": st.msg})
        if f8:
            # part of the known finding: the failed INSERT leaves the server's connection inside an (empty)
            # transaction until the next commit; frames and steps in that window are not judged by C09
            self.f8_dangling = True
        if not st.in_txn_after:
            self.f8_dangling = False
        if st.in_txn_after and self.f8_dangling:
            self.dontcare["c09_window_after_known_F8"] += 1
            tabs = world.pending_changes() if world.running else []
            if tabs:
                self.flag({"C09"}, "changes left pending in the transaction left open after the known cross-app failure", st,
                          {"kind": st.kind, "msg": st.msg, "tables": tabs})
        elif st.in_txn_after:
            self.ev["c09_no_txn_after_step"] += 1
            self.flag({"C09", "C17"}, "transaction left open after step", st,
                      {"kind": st.kind, "msg": st.msg, "exc": st.exc})
        else:
            self.ev["c09_no_txn_after_step"] += 1
        k = st.kind
        if k == "connect":
            self._on_connect(world, st)
        elif k == "cmd":
            self._on_cmd(world, st, d, ud)
        elif k == "drop":
            self._on_drop(world, st, d, ud)
        elif k == "closing":
            self._on_closing(world, st, d, ud)
        elif k == "halfconn":
            self.ev["halfconn_changes_nothing"] += 1
            if d or ud or st.frames:
                self.flag({"C17"}, "a connection that never completed its handshake changed state or produced frames", st, {"diff": _d(d)})
        elif k == "sweep":
            self._on_sweep(world, st, d, ud)
        elif k in ("start", "stop"):
            self._on_lifecycle(world, st, d, ud)
        self._any_usage_row_blurred(st, ud)
        self._structural(world, st)
        self._resync(world, st)
        # when did the last subscriber of each mailbox leave (C12: a client may be away for
        # at least expiration minus one sweep period after having been connected)
        subscribed = set(id(cm.sub) for cm in self.cm.values() if cm.alive and cm.sub is not None)
        for m in self.mb.values():
            now_sub = id(m) in subscribed
            if getattr(m, "was_subscribed", False) and not now_sub:
                m.t_unsub = st.t
            m.was_subscribed = now_sub
        self._shape(world, st)
        if len(self.violations) > nv0:
            # a nameplate that vanished in a step that violated something, while sides still held it, is still
            # "alive" as far as C03 is concerned: a holder's repeated claim must be told the same mailbox id
            for (t, k, old, new) in d:
                if t == "nameplates" and new is None:
                    n = self._np_before.get((old["app_id"], old["name"]))
                    if n is not None and n.holders() and not n.unknown_origin:
                        self.lost_np[(old["app_id"], old["name"])] = (n.mid, set(n.holders()))
            # whatever went wrong, the objects alive now are no longer judged by the lifetime oracles
            for m in self.mb.values():
                m.taint.add("contaminated")
            for n in self.np.values():
                n.taint.add("contaminated")

    # ------------------------------------------------------------------
    def _on_connect(self, world, st):
        cm = ConnModel(st.conn)
        self.cm[st.conn] = cm
        self.ev["welcome"] += 1
        fr = [f for c, f in st.frames if c == st.conn]
        if len(fr) != 1 or fr[0].get("type") != "welcome" or fr[0].get("welcome") != self.cfg.expected_welcome():
            self.flag({"C17"}, "first frame is not the configured welcome", st,
                      {"frames": fr, "expected": self.cfg.expected_welcome()})
        if [c for c, f in st.frames if c != st.conn]:
            self.flag({"C17", "C02"}, "connect produced frames on other connections", st, {})
        if st.extra["diff"] or st.extra["udiff"]:
            self.flag({"C17"}, "connect changed stored state", st, {"diff": _d(st.extra["diff"])})

    def _on_drop(self, world, st, d, ud):
        cm = self.cm.get(st.conn)
        if cm is not None:
            cm.alive = False
            cm.sub = None
        self.ev["drop_changes_nothing"] += 1
        if d or ud:
            also = set()
            if cm is not None and cm.did_allocate and any(t in ("nameplates", "nameplate_sides") for (t, k, o, n) in d):
                also.add("C04")      # an allocated nameplate is held until it is retired, not until the connection drops
            self.flag({"C07", "C08"} | also, "disconnect changed stored state", st, {"diff": _d(d), "udiff": _d(ud)})
        if st.frames:
            self.flag({"C02"}, "disconnect produced frames", st, {"frames": st.frames})

    def _on_closing(self, world, st, d, ud):
        """The connection's closing handshake has begun (its Close frame was processed, the connection is not lost
        yet).  From here on it is disconnecting: nothing is owed to it any more (C02), nothing can reach it, and
        nothing it leaves behind may disturb the others.  For the sweep and the status row it still counts as
        connected until the drop, like in the server."""
        cm = self.cm.get(st.conn)
        if cm is not None:
            cm.closing = True
        self.ev["closing_changes_nothing"] += 1
        if d or ud or st.frames:
            self.flag({"C17"}, "begin of a closing handshake changed state or produced frames", st, {"diff": _d(d)})

    def _on_lifecycle(self, world, st, d, ud):
        if st.kind == "stop":
            for cm in self.cm.values():
                cm.alive = False
                cm.sub = None
        self.ev["lifecycle_changes_nothing"] += 1
        if d:
            self.flag({"C11", "C19"}, "start/stop changed channel rows", st, {"diff": _d(d)})
        if st.exc:
            self.flag({"C10", "C11", "C19"}, "service failed to start/stop", st, {"exc": st.exc, "tb": _tail(st.tb)})
        elif st.kind == "start":
            # C09: durability settings of the server's own connections
            self.ev["c09_pragmas"] += 1
            for name, pr in world.pragmas().items():
                if pr["synchronous"] != 2 or str(pr["journal_mode"]).lower() != "delete" or pr["isolation_level"] is None:
                    self.flag({"C09", "C10"}, "database connection opened with weakened durability settings", st,
                              {"db": name, "pragmas": pr})

    def _any_usage_row_blurred(self, st, ud):
        """C16, whatever the path: every client-activity timestamp that appears in the usage database (a new row or a
        changed value) is a multiple of the configured interval and not in the future."""
        if not (self.usage_on and self.blur):
            return
        for (t, k, old, new) in ud:
            field = {"nameplates": "started", "mailboxes": "started", "client_versions": "connect_time"}.get(t)
            if field is None or new is None or (old is not None and old.get(field) == new.get(field)):
                continue
            v = new.get(field)
            self.ev["c16_any_usage_row_blurred"] += 1
            if not isinstance(v, (int, float)) or isinstance(v, bool) or v % self.blur != 0 or v > st.t:
                self.flag({"C16"}, "usage timestamp written without blurring", st,
                          {"table": t, "field": field, "stored": v, "blur": self.blur, "now": st.t, "kind": st.kind,
                           "msg": _short(st.msg) if st.msg is not None else None})

    # ------------------------------------------------------------------
    def _structural(self, world, st):
        """Cheap invariants of the stored state after every step."""
        a = st.after
        self.ev["structural"] += 1
        seen = Counter((r["app_id"], r["name"]) for r in a["nameplates"].values())
        for k, n in seen.items():
            if n > 1:
                self.flag({"C03", "C10"}, "duplicate nameplate row", st, {"key": k})
        seen = Counter((r["nameplates_id"], r["side"]) for r in a["nameplate_sides"].values())
        for k, n in seen.items():
            if n > 1:
                self.flag({"C14", "C10"}, "duplicate nameplate side row", st, {"key": k})
        seen = Counter((r["mailbox_id"], r["side"]) for r in a["mailbox_sides"].values())
        for k, n in seen.items():
            if n > 1:
                self.flag({"C14", "C10"}, "duplicate mailbox side row", st, {"key": k})
        mids = {r["id"]: r["app_id"] for r in a["mailboxes"].values()}
        npids = set(a["nameplates"].keys())
        for r in a["nameplates"].values():
            if r["mailbox_id"] not in mids or mids[r["mailbox_id"]] != r["app_id"]:
                self.flag({"C08", "C13"}, "nameplate points at no mailbox of its app", st, {"row": r})
        for r in a["nameplate_sides"].values():
            if r["nameplates_id"] not in npids:
                self.flag({"C07", "C13"}, "nameplate side row without nameplate", st, {"row": r})
        for r in a["mailbox_sides"].values():
            if r["mailbox_id"] not in mids:
                self.flag({"C08", "C13"}, "mailbox side row without mailbox", st, {"row": r})
        for i, r in a["messages"].items():
            if mids.get(r["mailbox_id"]) != r["app_id"]:
                # report once, when the row first is an orphan
                was_ok = i in st.before["messages"] and any(
                    m["id"] == r["mailbox_id"] and m["app_id"] == r["app_id"]
                    for m in st.before["mailboxes"].values())
                if was_ok or i not in st.before["messages"]:
                    self.flag({"C13"}, "message row without mailbox (never swept)", st,
                              {"row": _short(r), "msg": st.msg})

    def _resync(self, world, st):
        """Keep the incarnation maps in step with the observed rows."""
        a = st.after
        present = {(r["app_id"], r["id"]): r for r in a["mailboxes"].values()}
        for key in list(self.mb.keys()):
            if key not in present:
                m = self.mb.pop(key)
                self.msgs.pop(key, None)
                for cm in self.cm.values():
                    if cm.sub is m:
                        cm.sub = None
                        cm.stale = True
        for key, r in present.items():
            if key not in self.mb:
                m = MbInc(key[0], key[1], self._new_n(), st.t)
                m.unknown_origin = True
                m.taint.add("unknown-origin")
                m.t_low = st.t
                # an upper bound of its activity: now
                self.mb[key] = m
        presentn = {(r["app_id"], r["name"]): (i, r) for i, r in a["nameplates"].items()}
        for key in list(self.np.keys()):
            if key not in presentn:
                self.np.pop(key)
        for key, (i, r) in presentn.items():
            if key not in self.np:
                n = NpInc(key[0], key[1], self._new_n(), st.t)
                self.np_ever.add((key[0], key[1]))
                n.rowid = i
                n.mid = r["mailbox_id"]
                n.unknown_origin = True
                n.taint.add("unknown-origin")
                self.np[key] = n

    def _shape(self, world, st):
        a = st.after
        shape = []
        for r in a["mailboxes"].values():
            sides = sorted((bool(s["opened"]), s["mood"] is not None) for _, s in mb_sides(a, r["id"]))
            nm = len(msgs_of(a, r["app_id"], r["id"]))
            nps = []
            for i, n in a["nameplates"].items():
                if n["mailbox_id"] == r["id"]:
                    nps.append(tuple(sorted(bool(s["claimed"]) for _, s in np_sides(a, i))))
            subs = sum(1 for cm in self.cm.values() if cm.sub is not None and cm.sub.mid == r["id"] and cm.alive)
            shape.append((tuple(sides), min(nm, 3), tuple(sorted(nps)), min(subs, 3)))
        self.shapes.add(tuple(sorted(shape)))
        cm = self.cm.get(st.conn) if st.conn else None
        if cm is not None:
            self.pstates.add((cm.bound, cm.did_allocate, cm.claim_state, cm.did_release,
                              cm.holds is not None, cm.open_ok, cm.did_close, cm.close_failed, cm.stale))


