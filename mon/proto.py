"""Per-connection protocol-state oracle, written from docs/server-protocol.md and
the text of property C17 (not from the handlers).  classify() puts every command
into one of three classes (DESIGN.md, C17):

  rejected  - the statement says it must be answered by exactly one error frame,
              change nothing and leave the connection usable;
  valid     - must be acked first, must not fail internally or drop the connection
              (an `error: crowded|reclaimed` answer is other properties' business);
  ambiguous - the statement does not decide; only the obligations of `valid`.
"""

REJECTED, VALID, AMBIGUOUS = "rejected", "valid", "ambiguous"

KNOWN_TYPES = ("ping", "bind", "list", "allocate", "claim", "release", "open", "add", "close")


class ConnModel(object):
    def __init__(self, name):
        self.name = name
        self.alive = True
        self.closing = False         # closing handshake begun: still registered with the server, reachable by nobody
        self.welcomed = False
        self.app = None
        self.side = None
        self.bound = False
        self.did_allocate = False
        self.allocated_name = None
        self.claim_state = None      # None | "ok" | "failed"
        self.claim_name = None
        self.did_release = False
        self.holds = None            # mailbox id of a successful, not yet closed open
        self.opened_id = None        # last id named in an open / close-open-first
        self.open_ok = False         # last open succeeded
        self.did_close = False
        self.close_failed = False
        self.sub = None              # MbInc this connection is subscribed to
        self.stale = False           # mailbox deleted under a held handle

    def classify(self, msg):
        if not isinstance(msg, dict):
            return AMBIGUOUS, "not an object"
        if "type" not in msg:
            return REJECTED, "no type"
        t = msg["type"]
        if not isinstance(t, str) or t not in KNOWN_TYPES:
            if not self.bound:
                return REJECTED, "before bind"
            return REJECTED, "unknown type"
        if t == "ping":
            if "ping" not in msg:
                return REJECTED, "missing field"
            return VALID, ""
        if t == "bind":
            if self.bound:
                return REJECTED, "second bind"
            if "appid" not in msg or "side" not in msg:
                return REJECTED, "missing field"
            return VALID, ""
        if not self.bound:
            return REJECTED, "before bind"
        if t == "list":
            return VALID, ""
        if t == "allocate":
            if self.did_allocate:
                return REJECTED, "second allocate"
            return VALID, ""
        if t == "claim":
            if "nameplate" not in msg:
                return REJECTED, "missing field"
            if self.claim_state == "ok":
                return REJECTED, "second claim"
            if self.claim_state == "failed":
                return AMBIGUOUS, "claim after failed claim"
            return VALID, ""
        if t == "release":
            if self.did_release:
                return REJECTED, "second release"
            if "nameplate" in msg:
                if self.claim_state == "ok" and msg["nameplate"] != self.claim_name:
                    return REJECTED, "release names another nameplate"
                if self.claim_state == "failed" and msg["nameplate"] != self.claim_name:
                    return AMBIGUOUS, "release names other than failed claim"
                return VALID, ""
            if self.claim_state is None:
                return AMBIGUOUS, "release without name and without claim"
            return VALID, ""
        if t == "open":
            if "mailbox" not in msg:
                return REJECTED, "missing field"
            if self.holds is not None:
                if self.stale:
                    return AMBIGUOUS, "open while holding a deleted mailbox"
                return REJECTED, "open while holding"
            if "mailbox" not in msg:
                return REJECTED, "missing field"
            if self.did_close or self.opened_id is not None:
                return AMBIGUOUS, "second open"
            return VALID, ""
        if t == "add":
            if self.holds is None:
                return REJECTED, "add without open mailbox"
            if "phase" not in msg or "body" not in msg:
                return REJECTED, "missing field"
            if self.stale:
                return AMBIGUOUS, "add through stale handle"
            if "phase" not in msg or "body" not in msg:
                return REJECTED, "missing field"
            if self.stale:
                return AMBIGUOUS, "add through stale handle"
            return VALID, ""
        if t == "close":
            if self.did_close:
                return REJECTED, "second close"
            if "mailbox" in msg:
                if self.opened_id is not None and msg["mailbox"] != self.opened_id:
                    if self.open_ok:
                        return REJECTED, "close names another mailbox"
                    return AMBIGUOUS, "close names other than failed open"
                if self.close_failed:
                    return AMBIGUOUS, "close after failed close"
                return VALID, ""
            if self.opened_id is None:
                return AMBIGUOUS, "close without name and without open"
            if self.close_failed:
                return AMBIGUOUS, "close after failed close"
            return VALID, ""
        return AMBIGUOUS, "?"
