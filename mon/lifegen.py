"""Grammar-based generator of *channel life cycles* (DESIGN.md 11.9).

gen.Gen draws every command uniformly from wide pools: good at collisions of identifiers, poor at histories that
need several particular things in a particular order.  This generator spends all of its events on one nameplate
name and one explicit mailbox id per app, four sides that keep coming back on new connections while their old
connections linger, and time steps chosen around the sweep period and the expiration time:

    round := arrivals  acts-of-connections-already-there  (restart)?  time  (restart)?
    history := round{2..5}  probes

An arrival is a new connection (its side drawn mostly from the sides already seen) that plays a short script
(claim, claim+open(+add), open of the explicit id or of an id told to somebody else, a close or release naming
something it never opened or claimed, ...).  Acts are single commands of connections that may belong to an earlier
life of the channel.  The probes at the end make every history observe what is left: the first sides come back,
claim, open, add and list.  Same step format as gen.Gen, judged by the same oracles.
"""
import random
from .gen import MOODS, BAD_CLIENT_VERSIONS

SIDES = ["s1", "s2", "s3", "s4"]
SIDE_W = [5, 5, 3, 1]
# around the sweep period (300) and the expiration time (660)
TIMES = [2, 30, 200, 290, 310, 370, 480, 590, 610, 670, 700, 1000, 1300]
TIME_W = [2, 1, 2, 1, 2, 2, 3, 2, 2, 2, 1, 1, 0.7]

SCRIPTS = [
    (["claim"], 6), (["claim", "open"], 6), (["claim", "open", "add"], 5), (["claim", "open", "add", "add"], 2),
    (["openM"], 4), (["openM", "add"], 4), (["openT"], 3), (["openT", "add"], 2),
    (["claim", "release"], 2), (["claim", "open", "release"], 2), (["claim", "open", "close"], 2),
    (["claim", "open", "add", "release", "close"], 1),
    (["closeM"], 2), (["closeT"], 2), (["releaseN"], 2), (["list"], 1), (["allocate", "claimA", "open"], 1),
    (["openM", "close"], 2), (["claim", "closeT"], 2), (["claim", "claim2"], 0.5), ([], 1),
]


class LConn(object):
    def __init__(self, name, app, side):
        self.name, self.app, self.side = name, app, side
        self.chan = 0
        self.claimed = None
        self.allocated = False
        self.released = False
        self.opened = None
        self.closed = False
        self.alive = True


class LifeGen(object):
    def __init__(self, seed, napps=2, steps=60, restarts=True, use_time=True, names=None, body_prefix="L",
                 p_illegal=0.03, list_cmd=True, closings=True, cross_app_mailboxes=False, probes=True, two_apps=False, explicit_sweeps=False,
                 bad_client_version=True, jumps=False, **ignored):
        self.r = random.Random(seed * 2654435761 % (1 << 32) + 17)
        self.seed = seed
        r = self.r
        self.apps = ["app"] if (napps < 2 or (r.random() < 0.6 and not two_apps)) else ["app", "app2"]
        pool = [n for n in (names or ["4", "7", "1"]) if isinstance(n, str)] or ["4"]
        self.name = r.choice(pool[:4])
        # three in ten histories have two channels alive side by side (two names, two client-chosen ids); sides and
        # connections work in both, and now and then a connection claims in one and opens in the other
        k = r.random()
        self.nchan = 1 if (k < 0.62 or len(pool) < 2) else (2 if (k < 0.87 or len(pool) < 3) else 3)
        self.names = [self.name] + [n for n in pool[:4] if n != self.name][:self.nchan - 1]
        # half of the multi-channel histories use identifiers of which one is the beginning of the other
        self.prefix_ids = self.nchan > 1 and r.random() < 0.5
        if self.prefix_ids:
            self.names[1] = self.name + "0"
        self.steps = steps
        self.restarts = restarts
        self.use_time = use_time
        self.body_prefix = body_prefix
        self.p_illegal = p_illegal
        self.list_cmd = list_cmd
        self.closings = closings
        self.cross_app = cross_app_mailboxes
        self.probes = probes
        self.explicit_sweeps = explicit_sweeps
        self.bad_cv = bad_client_version
        self.jumps = jumps
        self.conns = []
        self.told = {(a, k): [] for a in self.apps for k in range(3)}       # connections whose claim may have been answered
        self.used_sides = {a: [] for a in self.apps}
        self.n = 0
        self.nb = 0
        self.h = []

    # -- helpers
    def emit(self, *s):
        self.h.append(list(s))

    def mb(self, app, chan=0):
        base = ["mL", "mK", "mJ"][chan]
        v = base if self.cross_app else "%s.%d" % (base, self.apps.index(app))
        if chan == 1 and self.prefix_ids:
            v = self.mb(app, 0) + "0"
        return v

    def chan_of(self, c):
        """the channel a command of c is about: its own, now and then the other one"""
        if self.nchan > 1 and self.r.random() < 0.12:
            return self.r.choice([k for k in range(self.nchan) if k != c.chan])
        return c.chan

    def live(self):
        return [c for c in self.conns if c.alive]

    def wchoice(self, items, weights):
        x = self.r.random() * sum(weights)
        for it, w in zip(items, weights):
            x -= w
            if x <= 0:
                return it
        return items[-1]

    def pick_side(self, app):
        used = self.used_sides[app]
        if used and self.r.random() < 0.6:
            s = self.r.choice(used)
        else:
            s = self.wchoice(SIDES, SIDE_W)
        if s not in used:
            used.append(s)
        return s

    def body(self):
        self.nb += 1
        return "%s%d-%d" % (self.body_prefix, self.seed, self.nb)

    def told_ref(self, c):
        cands = [t for t in self.told[(c.app, self.chan_of(c))]]
        if c.claimed is not None and self.r.random() < 0.5:
            return {"$claimed": c.name}
        if cands:
            return {"$claimed": self.r.choice(cands).name}
        return self.mb(c.app, c.chan)

    # -- commands
    def cmd(self, c, what):
        r = self.r
        send = lambda **m: self.emit("send", c.name, m)
        if what == "claim" or what == "claim2":
            k = self.chan_of(c)
            if c.claimed is None:
                c.claimed = self.names[k]
                self.told[(c.app, k)].append(c)
            send(type="claim", nameplate=self.names[k])
        elif what == "claimA":
            if c.claimed is None:
                c.claimed = {"$alloc": c.name}
                self.told[(c.app, c.chan)].append(c)
            send(type="claim", nameplate={"$alloc": c.name})
        elif what == "allocate":
            c.allocated = True
            send(type="allocate")
        elif what in ("open", "openM", "openT"):
            if what == "open":
                v = {"$claimed": c.name} if c.claimed is not None else self.told_ref(c)
            elif what == "openM":
                v = self.mb(c.app, self.chan_of(c))
            else:
                v = self.told_ref(c)
            if c.opened is None and not c.closed:
                c.opened = v
            send(type="open", mailbox=v)
        elif what == "add":
            send(type="add", phase=r.choice(["pake", "version", "0", "1"]), body=self.body())
        elif what == "release":
            c.released = True
            m = {"type": "release"}
            if r.random() < 0.4 and c.claimed is not None:
                m["nameplate"] = c.claimed
            self.emit("send", c.name, m)
        elif what == "releaseN":
            c.released = True
            send(type="release", nameplate=self.names[self.chan_of(c)])
        elif what == "close":
            c.closed = True
            m = {"type": "close"}
            if r.random() < 0.4 and c.opened is not None:
                m["mailbox"] = c.opened
            if r.random() < 0.7:
                m["mood"] = r.choice(MOODS)
            self.emit("send", c.name, m)
        elif what in ("closeM", "closeT"):
            c.closed = True
            m = {"type": "close", "mailbox": self.mb(c.app, self.chan_of(c)) if what == "closeM" else self.told_ref(c)}
            if r.random() < 0.6:
                m["mood"] = r.choice(MOODS)
            self.emit("send", c.name, m)
        elif what == "list":
            send(type="list")

    def arrival(self, app=None, side=None, script=None, bad=False):
        r = self.r
        app = app or r.choice(self.apps)
        side = side or self.pick_side(app)
        self.n += 1
        c = LConn("c%d" % self.n, app, side)
        c.chan = r.randrange(self.nchan)
        self.conns.append(c)
        self.emit("connect", c.name)
        if bad or (self.bad_cv and script is None and r.random() < 0.015):
            # a bind whose client_version is not a pair (outside the input space: nothing about its answer is
            # judged, the connection is dropped right away; what it leaves behind in the server is judged)
            self.emit("send", c.name, {"type": "bind", "appid": app, "side": side, "client_version": r.choice(BAD_CLIENT_VERSIONS)})
            self.emit("drop", c.name)
            c.alive = False
            return c
        self.emit("send", c.name, {"type": "bind", "appid": app, "side": side})
        if script is None:
            script = self.wchoice([s for s, _ in SCRIPTS], [w for _, w in SCRIPTS])
        for what in script:
            self.cmd(c, what)
        return c

    def act(self):
        r = self.r
        live = self.live()
        if not live:
            return
        c = r.choice(live)
        acts = [("drop", 3), ("list", 1 if self.list_cmd else 0)]
        if c.claimed is None and c.opened is None and not c.closed and not c.released:
            acts.append(("script", 6))          # a connection that has only bound so far starts to work
        if self.closings:
            acts.append(("closing", 0.6))
        if c.claimed is None:
            acts.append(("claim", 3))
        if not c.released:
            acts.append(("release", 3) if c.claimed is not None else ("releaseN", 1.5))
        if c.opened is None and not c.closed:
            acts += [("open", 3), ("openM", 1.5), ("closeM", 1), ("closeT", 1.5)]
        if c.opened is not None and not c.closed:
            acts += [("add", 5), ("close", 3.5)]
        if r.random() < self.p_illegal:
            acts = [("add", 1), ("close", 1), ("release", 1), ("claim2", 1), ("open", 1)]
        what = self.wchoice([a for a, _ in acts], [w for _, w in acts])
        if what == "script":
            for w in self.wchoice([x for x, _ in SCRIPTS], [y for _, y in SCRIPTS]):
                self.cmd(c, w)
        elif what == "drop":
            c.alive = False
            self.emit("drop", c.name)
        elif what == "closing":
            c.alive = False
            self.emit("closing", c.name)
            self._closing.append(c)
        else:
            self.cmd(c, what)

    def flush_closing(self):
        for c in self._closing:
            self.emit("drop", c.name)
        self._closing = []

    def restart(self):
        self.flush_closing()
        for c in self.conns:
            c.alive = False
        self.emit("restart")
        if self.r.random() < 0.2:
            # nobody comes back for a long while: the restarted service is alone with the rows it found
            self.emit("adv", self.r.choice([610, 670, 700, 1000]))
        elif self.r.random() < 0.5:
            # the first connections after a restart only bind (or ask for the list) and sit there while a sweep
            # passes: the server has rows for their app but has not built any object for them yet
            r = self.r
            app = r.choice(self.apps)
            new = [self.arrival(app, None, r.choice([[], [], ["list"], ["releaseN"]]), bad=(self.bad_cv and r.random() < 0.25))
                   for _ in range(r.choice([1, 2, 2, 3]))]
            for c in new:
                if c.alive and r.random() < 0.45:
                    c.alive = False
                    self.emit(r.choice(["drop", "drop", "closing"]), c.name)
                    if self.h[-1][0] == "closing":
                        self._closing.append(c)
            self.flush_closing()
            self.emit("adv", r.choice([290, 310, 310, 480, 610]))
            if self.explicit_sweeps:
                self.emit("sweep")

    def time(self):
        if not self.use_time:
            return
        if self.jumps and self.r.random() < 0.12:
            # the process is suspended / the reactor busy for a while: one late sweep instead of several on time
            self.emit("jump", self.r.choice([610, 670, 700, 1000, 1300]) + self.r.choice([0, 0.125]))
            return
        dt = self.wchoice(TIMES, TIME_W)
        self.emit("adv", dt + self.r.choice([0, 0, 0.125, -0.125]))
        if self.explicit_sweeps and self.r.random() < 0.6:
            self.emit("sweep")

    def gen(self):
        r = self.r
        self._closing = []
        rounds = r.choice([2, 3, 3, 4, 5])
        for k in range(rounds):
            for _ in range(r.choice([0, 1, 1, 2, 2, 3]) if k else r.choice([1, 2, 2, 3])):
                self.arrival()
                if r.random() < 0.25:
                    self.act()
            for _ in range(r.choice([0, 1, 2, 3])):
                self.act()
            self.flush_closing()
            if self.restarts and r.random() < 0.15:
                self.restart()
            if r.random() < 0.85:
                self.time()
                if r.random() < 0.3:
                    self.time()
            if self.restarts and r.random() < 0.12:
                self.restart()
            if len(self.h) > self.steps * 2:
                break
        if self.probes:
            self.probe()
        return self.h

    def probe(self):
        """Everything that is left is looked at: the sides come back on new connections."""
        r = self.r
        for app in self.apps:
            sides = list(self.used_sides[app])[:2] or ["s1"]
            if len(sides) < 2:
                sides.append("s2" if sides[0] != "s2" else "s1")
            if r.random() < 0.5:
                sides.reverse()
            if r.random() < 0.3 and len(self.used_sides[app]) > 2:
                sides[r.randrange(2)] = self.used_sides[app][2]
            style = r.choice(["claim", "claim", "openM", "mixed"])
            new = []
            for i, s in enumerate(sides):
                if style == "claim" or (style == "mixed" and i == 0):
                    new.append(self.arrival(app, s, ["claim", "open", "add"]))
                else:
                    new.append(self.arrival(app, s, ["openM", "add"]))
            # connections of earlier rounds that are still there say something too
            for c in self.live():
                if c.app != app or c in new:
                    continue
                if c.opened is not None and not c.closed and r.random() < 0.7:
                    self.cmd(c, "add")
                k = r.random()
                if k < 0.2 and c.claimed is not None and not c.released:
                    self.cmd(c, "release")
                elif k < 0.35 and c.opened is not None and not c.closed:
                    self.cmd(c, "close")
                elif k < 0.42 and c.claimed is None:
                    self.cmd(c, "claim")
            if self.list_cmd:
                self.cmd(new[0], "list")
            if r.random() < 0.5:
                for c in new:
                    if r.random() < 0.7:
                        self.cmd(c, r.choice(["release", "close"]) if c.claimed else "close")
                c3 = self.arrival(app, sides[0], [r.choice(["claim", "openM", "openT"])])
                if c3.opened is not None:
                    self.cmd(c3, "add")
