"""Differential (metamorphic) runner: execute related histories on the real server and compare
canonicalised observation logs (DESIGN.md 2.6).  No model of the server is involved."""
import json, copy, re
from .engine import T0
from .run import Exec


class Rec(object):
    def __init__(self):
        self.steps = []       # [{"op":..., "conn":..., "frames":[(conn, frame)], "exc":..., "sweep_exc":...}]
        self.final = None
        self.ufinal = None
        self.allocs = {}
        self.claims = {}


def step_conn(s):
    return s[1] if s[0] in ("connect", "send", "drop", "closing", "halfconn") else None


def record(ex, hist, rec=None):
    """Run `hist` on Exec `ex`, recording per history step what every connection received."""
    rec = rec or Rec()
    w = ex.world
    for s in hist:
        n0 = len(w.steps)
        ex.step(s)
        frames, excs, sweeps = [], [], []
        for st in w.steps[n0:]:
            frames += [(c, f) for c, f in st.frames]
            if st.exc:
                excs.append(st.exc)
            if st.sweep is not None:
                sweeps.append(st.sweep.get("exc"))
            if st.errors:
                excs += ["logged: " + e for e in st.errors]
        rec.steps.append({"op": s[0], "conn": step_conn(s), "frames": frames, "exc": excs, "sweeps": sweeps,
                          "t": w.now - T0, "cmd": s[2] if s[0] == "send" else None})
    rec.final = w.dump()
    rec.ufinal = w.udump()
    rec.allocs = dict(ex.allocs)
    rec.claims = dict(ex.claims)
    return rec


def conn_apps(hist):
    """Statically: which app each connection binds to (its first well-formed bind)."""
    out = {}
    for s in hist:
        if s[0] == "send" and isinstance(s[2], dict) and s[2].get("type") == "bind" \
                and "appid" in s[2] and "side" in s[2] and s[1] not in out:
            out[s[1]] = (s[2]["appid"], s[2]["side"])
    return out


def project(hist, keep_app):
    """H with every connection bound to another app removed (time, sweeps, restarts kept)."""
    apps = conn_apps(hist)
    out = []
    for s in hist:
        c = step_conn(s)
        if c is not None and c in apps and apps[c][0] != keep_app:
            continue
        out.append(s)
    return out


class Canon(object):
    """Renames generated mailbox ids by order of first appearance."""
    def __init__(self, known=None):
        self.map = dict(known or {})
        self.n = 0

    def learn(self, mid):
        if isinstance(mid, str) and mid not in self.map:
            self.n += 1
            self.map[mid] = "<mb%d>" % self.n

    def apply(self, x):
        if isinstance(x, str):
            return self.map.get(x, x)
        if isinstance(x, dict):
            return {k: self.apply(v) for k, v in x.items()}
        if isinstance(x, (list, tuple)):
            return [self.apply(v) for v in x]
        return x


def canon_store(d, canon, app=None):
    nps = []
    for i, r in d["nameplates"].items():
        if app is not None and r["app_id"] != app:
            continue
        sides = sorted((s["side"], s["claimed"], s["added"]) for s in d["nameplate_sides"].values() if s["nameplates_id"] == i)
        nps.append([r["app_id"], r["name"], r["mailbox_id"], r.get("request_id"), sides])
    nps.sort(key=lambda x: (x[0], x[1]))
    for n in nps:
        canon.learn(n[2])
    mbs = []
    rows = [r for r in d["mailboxes"].values() if app is None or r["app_id"] == app]
    # first the ones already named, then by what they contain
    for r in rows:
        sides = sorted((s["side"], s["opened"], s["added"], s["mood"]) for s in d["mailbox_sides"].values() if s["mailbox_id"] == r["id"])
        msgs = sorted(((m["side"], m["phase"], m["body"], m["server_rx"], m["msg_id"]) for m in d["messages"].values()
                       if m["mailbox_id"] == r["id"] and m["app_id"] == r["app_id"]), key=repr)
        mbs.append([r["app_id"], r["id"], r["updated"], r["for_nameplate"], sides, msgs])
    unlearned = [m for m in mbs if m[1] not in canon.map and _looks_generated(m[1])]
    unlearned.sort(key=lambda m: repr([m[0]] + m[2:]))
    for m in unlearned:
        canon.learn(m[1])
    mids = {(r["app_id"], r["id"]) for r in d["mailboxes"].values()}
    orphans = sorted(((m["app_id"], m["mailbox_id"], m["body"]) for m in d["messages"].values()
                      if (m["app_id"], m["mailbox_id"]) not in mids and (app is None or m["app_id"] == app)), key=repr)
    return canon.apply({"nameplates": nps, "mailboxes": sorted(canon.apply(mbs), key=repr), "orphan_messages": orphans})


_GEN_RE = re.compile(r"^[a-z2-7]{13}$")


def _looks_generated(mid):
    return isinstance(mid, str) and bool(_GEN_RE.match(mid))


def canon_usage(u, app=None):
    out = {}
    for t in ("nameplates", "mailboxes", "client_versions"):
        rows = [r for r in u.get(t, {}).values() if app is None or r["app_id"] == app]
        out[t] = sorted((sorted(r.items(), key=lambda kv: kv[0]) for r in rows), key=repr)
    return out


def canon_frames(rec, canon, conns=None, start=0, skip_types=(), skip_conns=()):
    """-> per history step: list of (conn, frame) with ids renamed; learns ids in order of appearance."""
    out = []
    for i, s in enumerate(rec.steps):
        fr = []
        for c, f in s["frames"]:
            if f.get("type") == "claimed" and (conns is None or c in conns):
                canon.learn(f.get("mailbox"))
        if i < start:
            continue
        for c, f in s["frames"]:
            if conns is not None and c not in conns:
                continue
            if c in skip_conns or f.get("type") in skip_types:
                continue
            fr.append([c, canon.apply(f)])
        # emission order across different connections inside one step is not observable by clients
        fr.sort(key=lambda x: x[0])
        out.append({"i": i, "op": s["op"], "conn": s["conn"], "frames": fr, "exc": s["exc"], "sweeps": s["sweeps"]})
    return out


def first_difference(a, b, path=""):
    """Human-readable location of the first difference between two JSON-like values (or None)."""
    if type(a) != type(b) and not (isinstance(a, (int, float)) and isinstance(b, (int, float))):
        return "%s: %r != %r" % (path, _s(a), _s(b))
    if isinstance(a, dict):
        for k in sorted(set(a) | set(b), key=repr):
            if k not in a or k not in b:
                return "%s.%s: present only on one side (%r / %r)" % (path, k, _s(a.get(k)), _s(b.get(k)))
            d = first_difference(a[k], b[k], "%s.%s" % (path, k))
            if d:
                return d
        return None
    if isinstance(a, (list, tuple)):
        for i in range(min(len(a), len(b))):
            d = first_difference(a[i], b[i], "%s[%d]" % (path, i))
            if d:
                return d
        if len(a) != len(b):
            longer = a if len(a) > len(b) else b
            return "%s: lengths %d != %d, first extra: %r" % (path, len(a), len(b), _s(longer[min(len(a), len(b))]))
        return None
    if a != b:
        return "%s: %r != %r" % (path, _s(a), _s(b))
    return None


def _s(x, n=300):
    r = repr(x)
    return r if len(r) <= n else r[:n] + "..."
