"""Directed scenario families (DESIGN.md 2.7): short skeletons with the free parameters
enumerated.  directed_for(pid, tier) -> [(family, params)], build(pid, family, params) ->
iterable of (case name, history, cfg, run options)."""
import itertools
from .engine import Config

FAMILIES = {}


def family(*pids):
    def deco(f):
        for p in pids:
            FAMILIES.setdefault(p, []).append(f)
        return f
    return deco


def directed_for(pid, tier):
    out = []
    for f in FAMILIES.get(pid, []):
        for params in f(None, tier):
            out.append((f.__name__, params))
    return out


def build(pid, name, params):
    for f in FAMILIES.get(pid, []):
        if f.__name__ == name:
            return f(params, None)
    raise KeyError(name)


class HB(object):
    """History builder."""
    def __init__(self):
        self.h = []
        self.n = 0
        self.nb = 0
        self.tag = "d"

    def conn(self, app=None, side=None, **kw):
        self.n += 1
        c = "c%d" % self.n
        self.h.append(["connect", c])
        if app is not None:
            self.send(c, type="bind", appid=app, side=side, **kw)
        return c

    def send(self, c, **msg):
        self.h.append(["send", c, msg])
        return self

    def add(self, c, phase="p", **kw):
        self.nb += 1
        body = "%s-%d" % (self.tag, self.nb)
        self.send(c, type="add", phase=phase, body=body, **kw)
        return body

    def drop(self, c):
        self.h.append(["drop", c])
        return self

    def adv(self, dt):
        self.h.append(["adv", dt])
        return self

    def restart(self):
        self.h.append(["restart"])
        return self

    def sweep(self):
        self.h.append(["sweep"])
        return self


U = Config(usage=True)
NU = Config(usage=False)
CFG2 = [U, NU]


def claimed(c):
    return {"$claimed": c}


def alloc(c):
    return {"$alloc": c}


# ---------------------------------------------------------------------------
@family("C01", "C09")
def c01_replay(params, tier):
    if params is None:
        return [{"restart": r, "busy": b, "delete": d, "usage": u}
                for r in (0, 1) for b in (0, 1) for d in ("none", "close", "expiry") for u in (0, 1)]
    p = params
    out = []
    for via in ("nameplate", "direct"):
        b = HB()
        b.tag = "c01%s" % via[0]
        a = b.conn("app", "s1")
        if via == "nameplate":
            b.send(a, type="claim", nameplate="7")
            mb = claimed(a)
        else:
            mb = "mX"
        b.send(a, type="open", mailbox=mb)
        b.add(a, "pake", id="i1")
        b.add(a, "phäse\x00", id="")
        b.add(a, "")
        if p["busy"]:
            o = b.conn("app2", "s1")
            b.send(o, type="claim", nameplate="7")
            b.send(o, type="open", mailbox=claimed(o))
            b.add(o, "pake")
            o2 = b.conn("app", "s3")
            b.send(o2, type="open", mailbox="other-mailbox")
            b.add(o2, "pake")
        b.drop(a)
        b.adv(100)
        if p["restart"]:
            b.restart()
        if p["delete"] == "close":
            z = b.conn("app", "s1")
            b.send(z, type="close", mailbox=mb, mood="happy")
        elif p["delete"] == "expiry":
            b.adv(1300)
        r = b.conn("app", "s2")
        if via == "nameplate" and p["delete"] == "none":
            b.send(r, type="claim", nameplate="7")
            b.send(r, type="open", mailbox=claimed(r))
        elif via == "nameplate":
            b.send(r, type="open", mailbox=claimed(a))
        else:
            b.send(r, type="open", mailbox=mb)
        b.add(r, "reply")
        r2 = b.conn("app", "s1")
        b.send(r2, type="open", mailbox=claimed(a) if via == "nameplate" else mb)
        out.append(("c01_replay:%s:%s" % (via, sorted(p.items())), b.h, U if p["usage"] else NU, {}))
    return out


@family("C02", "C12", "C11", "C15")
def c02_fanout(params, tier):
    if params is None:
        return [{"n": n, "adder_sub": a, "order": o, "usage": u, "bad": bad, "ghost": g}
                for n in (1, 2, 4) for a in (0, 1) for o in ("plain", "restart-bind-sweep-open", "bind-sweep-open", "sweeps-between")
                for u in (0, 1) for (bad, g) in ((0, 0), (1, 0), (2, 0), (0, 1), (0, 2))]
    p = params
    b = HB()
    b.tag = "c02"
    # leave some rows of the app in the store so that sweeps visit it
    seed = b.conn("app", "s1")
    b.send(seed, type="claim", nameplate="9")
    b.drop(seed)
    if p["order"] == "restart-bind-sweep-open":
        b.restart()
    for i in range(p.get("bad", 0)):
        # a bind outside the input space (client_version is not a pair) fails in the handler: not judged itself,
        # but whatever bookkeeping it leaves behind must not cost later connections of the app their deliveries
        x = b.conn()
        b.send(x, type="bind", appid="app", side="s9", client_version=[None, [], 7][(i + p["n"]) % 3])
        b.drop(x)
    subs = []
    for i in range(p["n"]):
        subs.append(b.conn("app", "s1" if i % 2 == 0 else "s2"))
    adder = b.conn("app", "s2")
    other = b.conn("app2", "s1")
    b.send(other, type="open", mailbox="mZ.1")
    for i in range(p.get("ghost", 0)):
        # further connections of the same sides (and apps) come and go while the others stay bound: whatever the server
        # counts per app, side or connection must still know that the others are there
        for side in ("s1", "s2"):
            g = b.conn("app", side)
            if i:
                b.send(g, type="list")
            b.drop(g)
    if p["order"] in ("restart-bind-sweep-open", "bind-sweep-open"):
        b.adv(300)
    for c in subs:
        b.send(c, type="open", mailbox="mZ")
    if p["adder_sub"]:
        b.send(adder, type="open", mailbox="mZ")
        b.add(adder, "1", side="evil")
    else:
        b.send(subs[0], type="add", phase="1", body="c02-first", side="evil", type_="x")
    if p["order"] == "sweeps-between":
        b.adv(700)
    late = b.conn("app", "s1")
    b.send(late, type="open", mailbox="mZ")
    b.add(late, "2")
    b.drop(subs[0])
    if p["adder_sub"]:
        b.add(adder, "3")
    b.adv(300)
    b.add(late, "4")
    if len(subs) > 1:
        b.send(subs[1], type="close", mood="happy")
        b.add(late, "5")
    b.adv(1000)
    b.add(late, "6")
    return [("c02_fanout:%s" % sorted(p.items()), b.h, U if p["usage"] else NU, {})]


@family("C03")
def c03_claims(params, tier):
    if params is None:
        return [{"restart": r, "cycle": c} for r in (0, 1) for c in ("release", "close", "expiry")]
    p = params
    b = HB()
    for app in ("app", "app2", "äpp"):
        a = b.conn(app, "s1")
        b.send(a, type="claim", nameplate="7")
        a2 = b.conn(app, "s1")
        b.send(a2, type="claim", nameplate="3")
    if p["restart"]:
        b.restart()
    for app in ("app", "app2"):
        x = b.conn(app, "s2")
        b.send(x, type="claim", nameplate="7")
        y = b.conn(app, "s1")
        b.send(y, type="claim", nameplate="7")      # repeat by the same side on a new connection
    # retire "7" of app and claim it again
    if p["cycle"] == "release":
        for s in ("s1", "s2"):
            r = b.conn("app", s)
            b.send(r, type="release", nameplate="7")
    elif p["cycle"] == "close":
        for s in ("s1", "s2"):
            r = b.conn("app", s)
            b.send(r, type="close", mailbox=claimed(a if False else "c1"), mood="happy")
    else:
        b.h.append(["dropall"])
        b.adv(1300)
    n = b.conn("app", "s3")
    b.send(n, type="claim", nameplate="7")
    n2 = b.conn("app", "s1")
    b.send(n2, type="claim", nameplate="7")
    return [("c03_claims:%s" % sorted(p.items()), b.h, U, {})]


@family("C03", "C07", "C14")
def c03_double_release(params, tier):
    """A and B hold a nameplate; A releases (once or twice, on new connections); B claims again: same id."""
    if params is None:
        return [{"twice": t, "restart": r, "usage": u} for t in (1, 2, 3) for r in (0, 1) for u in (0, 1)]
    p = params
    b = HB()
    A = b.conn("app", "s1")
    b.send(A, type="claim", nameplate="6")
    B = b.conn("app", "s2")
    b.send(B, type="claim", nameplate="6")
    b.send(A, type="release")
    for i in range(p["twice"] - 1):
        A2 = b.conn("app", "s1")
        b.send(A2, type="release", nameplate="6")
    if p["restart"]:
        b.restart()
    L = b.conn("app", "s4")
    b.send(L, type="list")
    B2 = b.conn("app", "s2")
    b.send(B2, type="claim", nameplate="6")
    b.send(B2, type="release")
    b.send(L, type="list")
    return [("c03_double_release:%s" % sorted(p.items()), b.h, U if p["usage"] else NU, {})]


@family("C05")
def c05_third(params, tier):
    if params is None:
        return [{"first": f, "st1": s1, "st2": s2, "retries": r, "restart": rs, "via": v}
                for f in ("claim", "open", "close")
                for s1 in ("subscribed", "closed", "released", "disconnected", "reconnected")
                for s2 in ("subscribed", "closed", "disconnected", "absent")
                for r in (0, 2) for rs in (0, 1) for v in ("nameplate", "direct")]
    p = params
    b = HB()
    b.tag = "c05"
    via_np = p["via"] == "nameplate"
    A = b.conn("app", "s1")
    if via_np:
        b.send(A, type="claim", nameplate="5")
        mb = claimed(A)
    else:
        mb = "mC"
    b.send(A, type="open", mailbox=mb)
    b.add(A, "pake")
    B = None
    if p["st2"] != "absent":
        B = b.conn("app", "s2")
        if via_np:
            b.send(B, type="claim", nameplate="5")
        b.send(B, type="open", mailbox=mb)
        b.add(B, "pake")

    def settle(c, state):
        if c is None:
            return
        if state == "closed":
            b.send(c, type="close", mood="happy")
        elif state == "released":
            if via_np:
                b.send(c, type="release")
        elif state == "disconnected":
            b.drop(c)
        elif state == "reconnected":
            b.drop(c)
    settle(A, p["st1"])
    settle(B, p["st2"])
    if p["restart"]:
        b.restart()
    for k in range(1 + p["retries"]):
        C = b.conn("app", "s3")
        if p["first"] == "claim":
            b.send(C, type="claim", nameplate="5" if via_np else "55")
            b.send(C, type="open", mailbox=mb)
        elif p["first"] == "open":
            b.send(C, type="open", mailbox=mb)
        else:
            b.send(C, type="close", mailbox=mb, mood="scary")
            C2 = b.conn("app", "s3")
            b.send(C2, type="open", mailbox=mb)
        b.send(C, type="add", phase="x", body="c05-intruder-%d" % k)
    # a fourth side too
    D = b.conn("app", "s4")
    b.send(D, type="open", mailbox=mb)
    # the first two keep their access: live subscriptions still get adds
    if not p["restart"]:
        for c, stt in ((A, p["st1"]), (B, p["st2"])):
            if c is not None and stt in ("subscribed", "released"):
                b.add(c, "after")
    return [("c05_third:%s" % sorted(p.items()), b.h, U, {})]


@family("C05", "C06")
def c05_after_cross_app_failure(params, tier):
    """A client of another app names the id of a live two-sided mailbox (this fails internally: known finding
    F8).  Whatever that failure leaves behind, a third side of the right app is still turned away."""
    if params is None:
        return [{"cmd": c, "usage": u} for c in ("open", "close") for u in (0, 1)]
    p = params
    b = HB()
    b.tag = "c05x"
    A = b.conn("app", "s1")
    b.send(A, type="open", mailbox="xid")
    b.add(A, "pake")
    B = b.conn("app", "s2")
    b.send(B, type="open", mailbox="xid")
    b.add(B, "pake")
    X = b.conn("app2", "s9")
    if p["cmd"] == "open":
        b.send(X, type="open", mailbox="xid")
    else:
        b.send(X, type="close", mailbox="xid", mood="happy")
    C = b.conn("app", "s3")
    b.send(C, type="open", mailbox="xid")
    b.add(A, "after")
    D = b.conn("app", "s3")
    b.send(D, type="claim", nameplate="3")
    b.send(D, type="open", mailbox="xid")
    return [("c05_after_cross_app_failure:%s" % sorted(p.items()), b.h, U if p["usage"] else NU, {})]


@family("C01", "C02", "C08", "C09", "C13", "C15")
def after_cross_app_failure(params, tier):
    """A client of another app names the id of a live mailbox (fails internally: known finding F8, owned by C06/C17).
    Whatever that failed command leaves behind - it runs statements before it fails, and the next commit of anybody
    makes them durable - the mailbox's own clients keep their messages, their subscriptions and a complete close."""
    if params is None:
        return [{"cmd": c, "usage": u, "sub": s} for c in ("open", "close") for u in (0, 1) for s in (0, 1)]
    p = params
    b = HB()
    b.tag = "xapp"
    A = b.conn("app", "s1")
    b.send(A, type="open", mailbox="xid")
    b.add(A, "pake")
    b.add(A, "1")
    B = None
    if p["sub"]:
        B = b.conn("app", "s2")
        b.send(B, type="open", mailbox="xid")
    X = b.conn("app2", "s1")
    if p["cmd"] == "open":
        b.send(X, type="open", mailbox="xid")
    else:
        b.send(X, type="close", mailbox="xid", mood="happy")
    Y = b.conn("app", "s3")
    b.send(Y, type="claim", nameplate="5")          # somebody else's commit
    b.add(A, "after")
    b.drop(A)
    R = b.conn("app", "s1")
    b.send(R, type="open", mailbox="xid")
    b.add(R, "again")
    b.send(R, type="close", mood="happy")
    if B is not None:
        b.add(B, "last")
        b.send(B, type="close", mood="happy")
    Z = b.conn("app", "s2")
    b.send(Z, type="open", mailbox="xid")           # a new incarnation starts empty
    # the foreign client goes on as if its command had worked (on a tree where it fails the connection is gone and
    # these are no-ops): whatever it manages to store is deleted by its close, and its app's next open starts empty
    b.add(X, "foreign")
    b.send(X, type="close", mailbox="xid", mood="happy") if p["cmd"] == "open" else None
    b.drop(X)
    X2 = b.conn("app2", "s1")
    b.send(X2, type="open", mailbox="xid")
    b.add(X2, "foreign2")
    b.send(X2, type="close", mood="happy")
    X3 = b.conn("app2", "s2")
    b.send(X3, type="open", mailbox="xid")
    return [("after_cross_app_failure:%s" % sorted(p.items()), b.h, U if p["usage"] else NU, {})]


@family("C01", "C02", "C06", "C08", "C09", "C12", "C13")
def scale(params, tier):
    """Counts well above what the random histories reach: many apps bound between a client's bind and its open, many
    subscribers on one mailbox, many stored messages, many mailboxes and nameplates side by side, a large body."""
    if params is None:
        return [{"what": w, "usage": u} for w in ("apps", "listeners", "messages", "mailboxes", "bigbody") for u in (0, 1)]
    p = params
    b = HB()
    b.tag = "sc" + p["what"][0]
    w = p["what"]
    if w == "apps":
        b1 = b.conn("app", "s1")
        for i in range(1100):
            b.conn("bulk-%d" % i, "s1")
        b.send(b1, type="claim", nameplate="4")
        b.send(b1, type="open", mailbox=claimed(b1))
        b2 = b.conn("app", "s2")
        b.send(b2, type="claim", nameplate="4")
        b.send(b2, type="open", mailbox=claimed(b2))
        b.add(b2, "pake")
        b.add(b1, "pake")
    elif w == "listeners":
        cs = []
        for i in range(70):
            c = b.conn("app", "s1" if i % 2 == 0 else "s2")
            b.send(c, type="open", mailbox="big")
            cs.append(c)
            if i in (1, 2, 3, 9, 33, 64, 65, 69):
                b.add(c, "p%d" % i)
        b.drop(cs[0])
        b.add(cs[-1], "tail")
        b.send(cs[1], type="close", mood="happy")
        b.add(cs[2], "tail2")
        # all but the last few go away; the survivors stay subscribed over several sweeps and then speak again
        for c in cs[2:60]:
            b.drop(c)
        b.adv(1300)
        b.add(cs[-1], "late")
        b.add(cs[-2], "late2")
        b.adv(400)
        for c in cs[60:]:
            b.drop(c)
    elif w == "messages":
        a = b.conn("app", "s1")
        b.send(a, type="open", mailbox="log")
        for i in range(520):
            b.add(a, "%d" % i)
        o = b.conn("app", "s2")
        b.send(o, type="open", mailbox="log")
        b.restart()
        o2 = b.conn("app", "s2")
        b.send(o2, type="open", mailbox="log")
    elif w == "mailboxes":
        for i in range(130):
            c = b.conn("app" if i % 3 else "app2", "s1")
            b.send(c, type="claim", nameplate="n%d" % i)
            b.send(c, type="open", mailbox=claimed(c))
            b.add(c, "pake")
            if i % 2:
                b.drop(c)
        r = b.conn("app", "s2")
        b.send(r, type="claim", nameplate="n127")
        b.send(r, type="open", mailbox=claimed(r))
        b.add(r, "reply")
        r2 = b.conn("app2", "s2")
        b.send(r2, type="claim", nameplate="n128")
        b.send(r2, type="open", mailbox=claimed(r2))
        b.send(r2, type="list")
    elif w == "bigbody":
        a = b.conn("app", "s1")
        b.send(a, type="open", mailbox="fat")
        o = b.conn("app", "s2")
        b.send(o, type="open", mailbox="fat")
        for n in (255, 256, 4096, 65536, 1 << 20):
            b.nb += 1
            b.send(a, type="add", phase="%d" % n, body="%s-%d-" % (b.tag, b.nb) + "f" * n)
        b.drop(o)
        o2 = b.conn("app", "s2")
        b.send(o2, type="open", mailbox="fat")
    return [("scale:%s" % sorted(p.items()), b.h, U if p["usage"] else NU, {})]


@family("C02", "C17", "C12")
def c02_closing(params, tier):
    """A subscriber's websocket closing handshake has begun (its Close frame was processed, the connection is not lost
    yet) when another client adds: the adder gets its ack and echo, every other subscriber the message, nobody is
    dropped.  The closing connection is the first / middle / last registered listener; a sweep may fall into the
    window; the closing one may be the adder's only peer."""
    if params is None:
        return [{"order": o, "third": t, "sweep": sw, "usage": u}
                for o in ("ABC", "BAC", "CBA", "BCA") for t in (0, 1) for sw in (0, 1) for u in (0, 1)]
    p = params
    b = HB()
    b.tag = "clo"
    sides = {"A": "s1", "B": "s2", "C": "s1"}
    cs = {}
    for name in p["order"]:
        if name == "C" and not p["third"]:
            continue
        cs[name] = b.conn("app", sides[name])
        b.send(cs[name], type="open", mailbox="mC")
    b.add(cs["B"], "0")
    b.h.append(["closing", cs["A"]])
    b.add(cs["B"], "1")
    if "C" in cs:
        b.add(cs["C"], "2")
    if p["sweep"]:
        b.adv(300)
        b.add(cs["B"], "3")
    b.send(cs["B"], type="ping", ping=7)
    b.drop(cs["A"])
    b.add(cs["B"], "4")
    A2 = b.conn("app", "s1")
    b.send(A2, type="open", mailbox="mC")
    b.add(A2, "5")
    b.h.append(["closing", cs["B"]])
    b.add(A2, "6")
    b.send(A2, type="close", mood="happy")
    b.drop(cs["B"])
    return [("c02_closing:%s" % sorted(p.items()), b.h, U if p["usage"] else NU, {})]


@family("C03", "C07", "C12")
def c03_activity_keeps_alive(params, tier):
    """A nameplate claimed long ago is used again (repeated claim, open, second side's claim, add) shortly before the
    sweep that would otherwise expire it; afterwards every claimant is still told the same mailbox id."""
    if params is None:
        return [{"again": a, "gap": g, "restart": r, "usage": u}
                for a in ("reclaim", "reclaim-open", "open", "second-claim", "add", "reclaim-same-conn-kept")
                for g in (590, 650) for r in (0, 1) for u in (0, 1)]
    p = params
    b = HB()
    b.tag = "c03k"
    for app in ("app", "app2"):
        A = b.conn(app, "s1")
        b.send(A, type="claim", nameplate="7")
        if p["again"] == "add":
            b.send(A, type="open", mailbox=claimed(A))
        if p["again"] != "reclaim-same-conn-kept":
            b.drop(A) if p["again"] != "add" else None
    first = {"app": "c1", "app2": "c2"}
    b.adv(p["gap"])
    if p["restart"]:
        b.restart()
    for app in ("app", "app2"):
        a0 = first[app]
        if p["again"] in ("reclaim", "reclaim-open", "reclaim-same-conn-kept"):
            A2 = b.conn(app, "s1")
            b.send(A2, type="claim", nameplate="7")
            if p["again"] == "reclaim-open":
                b.send(A2, type="open", mailbox=claimed(A2))
            b.drop(A2)
        elif p["again"] == "open":
            A2 = b.conn(app, "s1")
            b.send(A2, type="open", mailbox=claimed(a0))
            b.drop(A2)
        elif p["again"] == "second-claim":
            B = b.conn(app, "s2")
            b.send(B, type="claim", nameplate="7")
            b.drop(B)
        elif p["again"] == "add":
            if p["restart"]:
                A2 = b.conn(app, "s1")
                b.send(A2, type="open", mailbox=claimed(a0))
                b.add(A2, "late")
                b.drop(A2)
            else:
                b.add(a0, "late")
                b.drop(a0)
    b.adv(320)       # the sweep in here sees the first activity older than the limit, the second one not
    for app in ("app", "app2"):
        B = b.conn(app, "s2")
        b.send(B, type="claim", nameplate="7")
        A3 = b.conn(app, "s1")
        b.send(A3, type="claim", nameplate="7")
        b.send(A3, type="open", mailbox=claimed(A3))
    return [("c03_activity_keeps_alive:%s" % sorted(p.items()), b.h, U if p["usage"] else NU, {})]


@family("C07", "C04")
def c07_allocated_again(params, tier):
    """All one-digit nameplates are held; an allocate is answered with a longer one; then one of the nine ends - by
    its last release, by the deletion of its mailbox (close without release), by both sides leaving one after the
    other, by expiry - and is gone from the list; the next allocate gets exactly that name again."""
    if params is None:
        out = [{"how": h, "early": e, "usage": u, "listing": l}
               for h in ("release", "close", "two-release", "two-close", "release-close", "expiry", "restart-release")
               for e in (0, 1) for u in (0, 1) for l in ((1, 0) if u == 0 else (1,))]
        # another spelling of the same number ("05", " 5", "+5", "5 ") is a different nameplate: held, it does not
        # keep "5" from being allocated again; retired, it does not free the "5" somebody still holds
        out += [{"how": h, "early": 1, "usage": 0, "listing": l, "pad": pd}
                for h in ("release", "close", "pad-release", "pad-close") for pd in ("0%d", " %d", "+%d", "%d ")
                for l in ((1, 0) if pd == "0%d" else (1,))]
        return out
    p = params
    b = HB()
    holders = {}
    for i in range(1, 10):
        c = b.conn("app", "s1")
        b.send(c, type="claim", nameplate="%d" % i)
        holders[i] = c
    v = 5
    H = holders[v]
    H2 = None
    if p["how"] in ("two-release", "two-close"):
        H2 = b.conn("app", "s2")
        b.send(H2, type="claim", nameplate="%d" % v)
    if p["early"]:
        E = b.conn("app", "s7")
        b.send(E, type="allocate")           # answered with two digits: the one-digit band is full
    L = b.conn("app", "s4")
    b.send(L, type="list")
    how = p["how"]
    pad = p.get("pad")
    if pad:
        P = b.conn("app", "s6")
        b.send(P, type="claim", nameplate=pad % v)
        b.send(L, type="list")
    if how == "pad-release":
        b.send(P, type="release")
    elif how == "pad-close":
        b.send(P, type="close", mailbox=claimed(P))
    elif how == "release":
        b.send(H, type="release")
    elif how == "close":
        b.send(H, type="close", mailbox=claimed(H), mood="happy")
    elif how == "two-release":
        b.send(H, type="release")
        b.send(H2, type="release")
    elif how == "two-close":
        b.send(H, type="close", mailbox=claimed(H))
        b.send(H2, type="close", mailbox=claimed(H))
    elif how == "release-close":
        b.send(H, type="release")
        b.send(H, type="close", mailbox=claimed(H))
    elif how == "restart-release":
        b.restart()
        H3 = b.conn("app", "s1")
        b.send(H3, type="release", nameplate="%d" % v)
        L = b.conn("app", "s4")
    elif how == "expiry":
        b.adv(420)
        for i in range(1, 10):
            if i != v:
                c = b.conn("app", "s1")
                b.send(c, type="claim", nameplate="%d" % i)
        b.adv(300)
    b.send(L, type="list")
    A = b.conn("app", "s3")
    b.send(A, type="allocate")
    b.send(L, type="list")
    B = b.conn("app", "s5")
    b.send(B, type="allocate")               # full again: two digits
    cfg = Config(usage=bool(p["usage"]), allow_list=bool(p["listing"]))
    return [("c07_allocated_again:%s" % sorted(p.items()), b.h, cfg, {})]


@family("C18", "C07")
def c18_list_states(params, tier):
    """`list` asked while nameplates are in every state of their life: one holder, two, a refused third (crowded),
    released by one side, released by all, retired with its mailbox by close, expired; in two apps with the same
    names; by a stranger and by a participant; listing allowed and disallowed."""
    if params is None:
        return [{"allow": a, "usage": u, "third": t} for a in (1, 0) for u in (0, 1) for t in ("claim", "open", "none")]
    p = params
    b = HB()
    b.tag = "lst"

    def ask():
        for app in ("app", "app2"):
            c = b.conn(app, "sL")
            b.send(c, type="list")
            b.drop(c)
    holders = {}
    for app in ("app", "app2"):
        A = b.conn(app, "s1")
        b.send(A, type="claim", nameplate="7")
        holders[app] = [A]
    ask()
    B = b.conn("app", "s2")
    b.send(B, type="claim", nameplate="7")
    b.send(B, type="list")
    ask()
    if p["third"] != "none":
        C = b.conn("app", "s3")
        if p["third"] == "claim":
            b.send(C, type="claim", nameplate="7")
        else:
            b.send(C, type="open", mailbox=claimed(B))
        b.send(C, type="list")
        ask()
    X = b.conn("app", "s1")
    b.send(X, type="allocate")
    b.send(X, type="claim", nameplate=alloc(X))
    Y = b.conn("app", "s2")
    b.send(Y, type="claim", nameplate="x")
    b.send(Y, type="open", mailbox=claimed(Y))
    ask()
    b.send(holders["app"][0], type="release")
    ask()
    b.send(B, type="release")
    b.send(B, type="list")
    ask()
    b.send(Y, type="close", mood="happy")          # retires "x" together with its mailbox
    ask()
    b.drop(X)
    b.adv(1300)                                     # everything not subscribed expires
    ask()
    return [("c18_list_states:%s" % sorted(p.items()), b.h, Config(usage=bool(p["usage"]), allow_list=bool(p["allow"])), {})]


@family("C02", "C01", "C08")
def c02_deleted_under_subscriber(params, tier):
    """A mailbox is deleted (last close, or expiry while nobody of it is... no: last close) while a further connection of
    a side that has closed is still attached; the same id is then used again by others: the old connection's
    subscription ended with the mailbox, it receives nothing of the new incarnation; the newcomers start empty."""
    if params is None:
        return [{"usage": u, "extra": e, "restart": r} for u in (0, 1) for e in ("same-side", "other-side", "both") for r in (0, 1)]
    p = params
    b = HB()
    b.tag = "dus"
    a1 = b.conn("app", "s1")
    b.send(a1, type="open", mailbox="mD")
    bb = b.conn("app", "s2")
    b.send(bb, type="open", mailbox="mD")
    extras = []
    if p["extra"] in ("same-side", "both"):
        a2 = b.conn("app", "s1")
        b.send(a2, type="open", mailbox="mD")
        extras.append(a2)
    if p["extra"] in ("other-side", "both"):
        b2 = b.conn("app", "s2")
        b.send(b2, type="open", mailbox="mD")
        extras.append(b2)
    b.add(a1, "old1")
    b.add(bb, "old2")
    b.send(bb, type="close", mood="happy")
    b.send(a1, type="close", mood="happy")       # last side closed: mD is deleted under the extra connections
    for e in extras:
        b.send(e, type="ping", ping=1)
    if p["restart"]:
        b.adv(2)
    c = b.conn("app", "s1")
    b.send(c, type="open", mailbox="mD")         # a new incarnation: starts empty
    d = b.conn("app", "s2")
    b.send(d, type="open", mailbox="mD")
    b.add(c, "new1")
    b.add(d, "new2")
    for e in extras:
        b.send(e, type="ping", ping=2)
    b.adv(300)
    b.add(c, "new3")
    b.send(c, type="close", mood="happy")
    b.send(d, type="close", mood="happy")
    return [("c02_deleted_under_subscriber:%s" % sorted(p.items()), b.h, U if p["usage"] else NU, {})]


@family("C05", "C14")
def c05_first_two_return(params, tier):
    """F7: after a third side was refused, a first-two side reconnects."""
    if params is None:
        return [{"cmd": c} for c in ("open", "claim", "close")]
    p = params
    b = HB()
    A = b.conn("app", "s1")
    b.send(A, type="claim", nameplate="5")
    b.send(A, type="open", mailbox=claimed(A))
    B = b.conn("app", "s2")
    b.send(B, type="claim", nameplate="5")
    b.send(B, type="open", mailbox=claimed(A))
    C = b.conn("app", "s3")
    b.send(C, type="open", mailbox=claimed(A))
    b.drop(A)
    A2 = b.conn("app", "s1")
    if p["cmd"] == "open":
        b.send(A2, type="open", mailbox=claimed(A))
    elif p["cmd"] == "claim":
        b.send(A2, type="claim", nameplate="5")
    else:
        b.send(A2, type="close", mailbox=claimed(A), mood="happy")
    return [("c05_first_two_return:%s" % p["cmd"], b.h, U, {})]


@family("C07", "C06")
def c07_holds_several(params, tier):
    if params is None:
        return [{"who": w, "order": o, "usage": u, "listing": l}
                for w in ("same-side", "same-side-other-app", "someone-else")
                for o in ("close-first", "release-first", "both-hold")
                for u in (0, 1) for l in (0, 1)]
    p = params
    b = HB()
    A1 = b.conn("app", "s1")
    b.send(A1, type="claim", nameplate="1")
    b.send(A1, type="open", mailbox=claimed(A1))
    # the other nameplate "2" (Y), held by ...
    if p["who"] == "same-side":
        Y = b.conn("app", "s1")
    elif p["who"] == "same-side-other-app":
        Y = b.conn("app2", "s1")
    else:
        Y = b.conn("app", "s2")
    b.send(Y, type="claim", nameplate="2")
    Y3 = b.conn("app", "s1")
    b.send(Y3, type="allocate")
    L = b.conn("app", "s4")
    b.send(L, type="list")
    B = b.conn("app", "s2")
    b.send(B, type="claim", nameplate="1")
    b.send(B, type="open", mailbox=claimed(A1))
    if p["order"] == "release-first":
        b.send(A1, type="release")
        b.send(L, type="list")
        b.send(B, type="release", nameplate="1")
        b.send(L, type="list")
    elif p["order"] == "close-first":
        b.send(A1, type="close", mood="happy")
        b.send(L, type="list")
        b.send(B, type="release")
    b.send(A1, type="close", mood="happy") if p["order"] != "close-first" else None
    b.send(L, type="list")
    b.send(B, type="close", mood="happy")
    b.send(L, type="list")
    # Y must be untouched: still listed in its app, still claimable by its holder with the same id
    Ly = b.conn("app2" if p["who"] == "same-side-other-app" else "app", "s4")
    b.send(Ly, type="list")
    Y2 = b.conn("app2" if p["who"] == "same-side-other-app" else "app", "s1" if p["who"] != "someone-else" else "s2")
    b.send(Y2, type="claim", nameplate="2")
    b.send(Y2, type="release")
    b.send(Ly, type="list")
    # reclaim after release of a still-live nameplate
    R = b.conn("app", "s1")
    b.send(R, type="claim", nameplate="8")
    R2 = b.conn("app", "s2")
    b.send(R2, type="claim", nameplate="8")
    b.send(R, type="release")
    R3 = b.conn("app", "s1")
    b.send(R3, type="claim", nameplate="8")
    S = b.conn("app", "s3")
    b.send(S, type="release", nameplate="8")        # stranger
    b.send(L, type="list")
    b.send(R2, type="release")
    b.send(L, type="list")
    X = b.conn("app", "s3")
    b.send(X, type="allocate")
    cfg = Config(usage=bool(p["usage"]), allow_list=bool(p["listing"]))
    return [("c07_holds_several:%s" % sorted(p.items()), b.h, cfg, {})]


@family("C08", "C17")
def c08_close_product(params, tier):
    if params is None:
        return [{"a_holds": a, "b_holds": bb, "np": n, "resend": r, "msgs": m, "other": o, "usage": u}
                for a in (0, 1) for bb in (0, 1) for n in (0, 1) for r in (0, 1) for m in (0, 1) for o in (0, 1) for u in (0, 1)
                if n or (a == 0 and bb == 0)]
    p = params
    b = HB()
    b.tag = "c08"
    A = b.conn("app", "s1")
    B = b.conn("app", "s2")
    if p["np"]:
        b.send(A, type="claim", nameplate="4")
        b.send(B, type="claim", nameplate="4")
        mb = claimed(A)
    else:
        mb = "mD"
    if p["other"]:
        O = b.conn("app", "s1")
        b.send(O, type="claim", nameplate="6")
        O2 = b.conn("app", "s2")
        b.send(O2, type="open", mailbox="mE")
        b.add(O2, "keep")
    b.send(A, type="open", mailbox=mb)
    b.send(B, type="open", mailbox=mb)
    if p["msgs"]:
        b.add(A, "pake")
        b.add(B, "pake")
    if p["np"] and not p["a_holds"]:
        b.send(A, type="release")
    if p["np"] and not p["b_holds"]:
        b.send(B, type="release")
    b.send(A, type="close", mood="happy")
    if p["msgs"]:
        b.add(B, "after-a-closed")
    if p["resend"]:
        A2 = b.conn("app", "s1")
        b.send(A2, type="close", mailbox=mb, mood="happy")
    b.send(B, type="close", mood="happy")
    if p["resend"]:
        B2 = b.conn("app", "s2")
        b.send(B2, type="close", mailbox=mb, mood="happy")
        A3 = b.conn("app", "s1")
        b.send(A3, type="close", mailbox=mb, mood="lonely")
    Z = b.conn("app", "s1")
    b.send(Z, type="open", mailbox=mb)
    if p["other"]:
        Z2 = b.conn("app", "s1")
        b.send(Z2, type="open", mailbox="mE")
        Z3 = b.conn("app", "s1")
        b.send(Z3, type="claim", nameplate="6")
    return [("c08_close_product:%s" % sorted(p.items()), b.h, U if p["usage"] else NU, {})]


@family("C12", "C13")
def c12_cutoff(params, tier):
    if params is None:
        offs = [-60, -1, -0.125, 0, 0.125, 1, 60]
        return [{"off": o, "act": a, "sub": s, "usage": u} for o in offs for a in ("open", "add", "claim", "allocate")
                for s in (0, 1) for u in (0, 1)]
    p = params
    b = HB()
    b.tag = "c12"
    # sweeps fire at 0, 300, 600, 900, ...; place the last activity at 900 - 660 + off = 240 + off
    N = b.conn("app", "s1")            # neighbour, old, must go at 900
    b.send(N, type="claim", nameplate="1")
    b.send(N, type="open", mailbox=claimed(N))
    b.add(N, "old")
    N2 = b.conn("app2", "s1")
    b.send(N2, type="open", mailbox="mF.1")
    b.add(N2, "old")
    b.drop(N)
    b.drop(N2)
    S = None
    if p["sub"]:
        S = b.conn("app", "s2")
        b.send(S, type="open", mailbox="mSub")
        b.add(S, "kept")
    t = 240 + p["off"]
    b.adv(t)
    A = b.conn("app", "s1")
    if p["act"] == "open":
        b.send(A, type="open", mailbox="mG")
    elif p["act"] == "add":
        b.send(A, type="open", mailbox="mG")
        b.add(A, "fresh")
    elif p["act"] == "claim":
        b.send(A, type="claim", nameplate="2")
    else:
        b.send(A, type="allocate")
    b.drop(A)
    b.adv(900 - t + 1)
    # after the sweep at 900: subscriber still served
    if S is not None:
        b.add(S, "still")
        b.adv(3000)
        b.add(S, "still2")
    return [("c12_cutoff:%s" % sorted(p.items()), b.h, U if p["usage"] else NU, {})]


@family("C12", "C13", "C02", "C15")
def connection_accounting(params, tier):
    """Connections of an app come and go in irregular ways - a bind that fails inside the server, a connection lost
    before or right after its bind, a second connection of the same side, a closing handshake, a connection that
    never got as far as the protocol - around a (re)start.  Afterwards one quiet client of that app binds, waits
    through a sweep, opens a mailbox, stays subscribed for half an hour, is joined by a second side whose message it
    must receive, adds, and leaves; after that everything must be swept."""
    kinds = ("bad-bind", "lost-unbound", "lost-bound", "same-side-lost", "closing", "halfconn", "bind-twice", "none")
    if params is None:
        return [{"kind": k, "restart": r, "n": n, "usage": u} for k in kinds for r in (1, 0) for n in (1, 2)
                for u in ((0, 1) if n == 1 else (1,))]
    p = params
    b = HB()
    b.tag = "acct"
    c0 = b.conn("app", "s1")
    b.send(c0, type="open", mailbox="m0")         # the app has rows of its own
    O = b.conn("app2", "s1")
    b.send(O, type="open", mailbox="o0")
    if p["restart"]:
        b.restart()
    else:
        b.drop(c0)
    k = p["kind"]
    Q = None
    for i in range(p["n"]):
        if k == "bad-bind":
            c = b.conn()
            b.send(c, type="bind", appid="app", side="s2", client_version=["python"])
            b.drop(c)
        elif k == "lost-unbound":
            c = b.conn()
            b.drop(c)
        elif k == "lost-bound":
            c = b.conn("app", "s2")
            b.drop(c)
        elif k == "same-side-lost":
            if Q is None:
                Q = b.conn("app", "s3")
            c = b.conn("app", "s3")
            b.drop(c)
        elif k == "closing":
            c = b.conn("app", "s2")
            b.h.append(["closing", c])
            b.drop(c)
        elif k == "halfconn":
            b.h.append(["halfconn", "h%d" % i])
        elif k == "bind-twice":
            c = b.conn("app", "s2")
            b.send(c, type="bind", appid="app", side="s2")
            b.drop(c)
    if Q is None:
        Q = b.conn("app", "s3")
    b.adv(310)
    b.send(Q, type="open", mailbox="m1")
    b.adv(1800)
    P = b.conn("app", "s4")
    b.send(P, type="open", mailbox="m1")
    b.add(P, "hello")
    b.add(Q, "late")
    b.drop(Q)
    b.drop(P)
    return [("connection_accounting:%s" % sorted(p.items()), b.h, U if p["usage"] else NU, {})]


@family("C12")
def c12_away(params, tier):
    """A client stays connected but silent for a long time (sweeps keep its channel alive), goes away for
    less than expiration minus one period, and comes back: everything must still be there."""
    if params is None:
        return [{"silent": s, "away": a, "other_expires": o, "restart": r, "usage": u}
                for s in (700, 1000, 3000) for a in (60, 299.875, 359) for o in (0, 1) for r in (0, 1) for u in (0, 1)]
    p = params
    b = HB()
    b.tag = "c12a"
    if p["other_expires"]:
        O = b.conn("app", "s3")
        b.send(O, type="open", mailbox="mOld")
        b.add(O, "old")
        b.drop(O)
    b.adv(10)
    S = b.conn("app", "s1")
    b.send(S, type="claim", nameplate="2")
    b.send(S, type="open", mailbox=claimed(S))
    b.add(S, "kept")
    b.adv(p["silent"])
    if p["restart"]:
        b.restart()          # the restart drops the subscription; the client is away from now on
    else:
        b.drop(S)
    b.adv(p["away"])
    R = b.conn("app", "s1")
    b.send(R, type="claim", nameplate="2")
    b.send(R, type="open", mailbox=claimed(S))
    b.add(R, "back")
    P = b.conn("app", "s2")
    b.send(P, type="claim", nameplate="2")
    b.send(P, type="open", mailbox=claimed(S))
    return [("c12_away:%s" % sorted(p.items()), b.h, U if p["usage"] else NU, {})]


@family("C15", "C16")
def c15_paths(params, tier):
    if params is None:
        return [{"sides": n, "mood1": m1, "mood2": m2, "path": pa, "blur": bl}
                for n in (1, 2, 3) for m1 in (None, "happy", "lonely", "scary", "errory", "weird")
                for m2 in ("happy", "scary", "errory") for pa in ("close", "release-then-close", "expiry", "close-np-held")
                for bl in (None, 61)]
    p = params
    b = HB()
    sides = ["s1", "s2", "s3"][:p["sides"]]
    conns = []
    b.adv(7.125)
    for i, s in enumerate(sides):
        c = b.conn("app", s, client_version=["python", "0.%d" % i])
        b.send(c, type="claim", nameplate="3")
        b.send(c, type="open", mailbox=claimed(conns[0] if conns else c))
        conns.append(c)
        b.adv(3.5)
    moods = [p["mood1"], p["mood2"], "happy"]
    if p["path"] == "expiry":
        b.h.append(["dropall"])
        b.adv(1500)
    else:
        for i, c in enumerate(conns[:2]):
            if p["path"] == "release-then-close":
                b.send(c, type="release")
                b.adv(1)
            msg = {"type": "close"}
            if moods[i] is not None:
                msg["mood"] = moods[i]
            b.send(c, **msg)
            b.adv(2.25)
    # a lone standalone mailbox and a re-sent close of something gone
    L = b.conn("app", "s1")
    b.send(L, type="open", mailbox="mH")
    b.adv(0.5)
    b.send(L, type="close", mood="lonely")
    L2 = b.conn("app", "s1")
    b.send(L2, type="close", mailbox="mH", mood="lonely")
    cfg = Config(usage=True, blur=p["blur"])
    return [("c15_paths:%s" % sorted(p.items(), key=str), b.h, cfg, {})]


C17_STATES = ["unbound", "bound", "allocated", "claimed", "claim-crowded", "claim-reclaimed", "released",
              "opened", "open-crowded", "closed", "close-crowded", "stale", "allocated+claimed+opened"]

C17_CMDS = [
    {"no": "type"}, {}, {"type": "frob"}, {"type": ""}, {"type": "ping"}, {"type": "ping", "ping": 7},
    {"type": "ping", "ping": {"a": [1, None, "ü"]}, "id": "x"},
    {"type": "bind"}, {"type": "bind", "appid": "app"}, {"type": "bind", "side": "s1"},
    {"type": "bind", "appid": "app", "side": "s1"}, {"type": "bind", "appid": "", "side": ""},
    {"type": "list"}, {"type": "allocate"}, {"type": "claim"}, {"type": "claim", "nameplate": "5"},
    {"type": "claim", "nameplate": "77"}, {"type": "release"}, {"type": "release", "nameplate": "5"},
    {"type": "release", "nameplate": "nope"}, {"type": "open"}, {"type": "open", "mailbox": "mQ"},
    {"type": "open", "mailbox": "mNew"}, {"type": "add"}, {"type": "add", "phase": "p"}, {"type": "add", "body": "b"},
    {"type": "add", "phase": "p", "body": "c17-body", "id": "z"}, {"type": "close"}, {"type": "close", "mood": "happy"},
    {"type": "close", "mailbox": "mQ"}, {"type": "close", "mailbox": "mNew", "mood": None},
]


@family("C17")
def c17_state_x_cmd(params, tier):
    if params is None:
        return [{"state": s, "cfg": i % 3} for i, s in enumerate(C17_STATES)]
    p = params
    out = []
    cfgs = [Config(usage=True), Config(usage=False, motd="motd ü", advertise="9.9", signal_error="err"),
            Config(usage=True, blur=60, allow_list=False, motd="")]
    for ci, cmd in enumerate(C17_CMDS):
        b = HB()
        st = p["state"]
        # two other sides occupy nameplate 5 / mailbox mQ so that a third is crowded
        def crowd():
            for s in ("s8", "s9"):
                o = b.conn("app", s)
                b.send(o, type="claim", nameplate="5")
                b.send(o, type="open", mailbox="mQ")
        X = b.conn()
        if st != "unbound":
            b.send(X, type="bind", appid="app", side="s1")
        if st == "allocated":
            b.send(X, type="allocate")
        elif st == "claimed":
            b.send(X, type="claim", nameplate="5")
        elif st == "claim-crowded":
            crowd()
            b.send(X, type="claim", nameplate="5")
        elif st == "claim-reclaimed":
            o = b.conn("app", "s9")
            b.send(o, type="claim", nameplate="5")
            y = b.conn("app", "s1")
            b.send(y, type="claim", nameplate="5")
            b.send(y, type="release")
            b.send(X, type="claim", nameplate="5")
        elif st == "released":
            b.send(X, type="claim", nameplate="5")
            b.send(X, type="release")
        elif st == "opened":
            b.send(X, type="open", mailbox="mQ")
        elif st == "open-crowded":
            crowd()
            b.send(X, type="open", mailbox="mQ")
        elif st == "closed":
            b.send(X, type="open", mailbox="mQ")
            b.send(X, type="close")
        elif st == "close-crowded":
            crowd()
            b.send(X, type="close", mailbox="mQ")
        elif st == "stale":
            b.send(X, type="open", mailbox="mQ")
            y = b.conn("app", "s1")
            b.send(y, type="close", mailbox="mQ", mood="happy")
        elif st == "allocated+claimed+opened":
            b.send(X, type="allocate")
            b.send(X, type="claim", nameplate="5")
            b.send(X, type="open", mailbox="mQ")
        b.send(X, **cmd) if False else b.h.append(["send", X, dict(cmd)])
        # probe: the connection is still usable
        b.send(X, type="ping", ping=ci)
        if st == "unbound":
            b.send(X, type="bind", appid="app", side="s1")
        b.send(X, type="list")
        b.h.append(["send", X, dict(cmd)])      # and the same command once more
        b.send(X, type="ping", ping="again")
        # the connection is still usable for what its state entitles it to, naming its objects explicitly
        if st in ("opened", "allocated+claimed+opened") and cmd.get("type") not in ("close",):
            b.send(X, type="add", phase="p", body="c17-after-%d" % ci)
            if st == "allocated+claimed+opened" and cmd.get("type") != "release":
                b.send(X, type="release", nameplate="5")
            b.send(X, type="close", mailbox="mQ", mood="happy")
        elif st == "claimed" and cmd.get("type") not in ("release",):
            b.send(X, type="release", nameplate="5")
        out.append(("c17:%s:%d" % (st, ci), b.h, cfgs[p["cfg"]], {}))
    return out


@family("C17")
def c17_every_slot(params, tier):
    """Every hostile string in every identifier slot (appid, side, nameplate, mailbox, phase, body, id, mood),
    with list / second client / release / close around it."""
    from .gen import HOSTILE
    if params is None:
        return [{"i": i} for i in range(len(HOSTILE))]
    h = HOSTILE[params["i"]]
    out = []
    for slot in ("all", "nameplate", "appside"):
        b = HB()
        app = h if slot in ("all", "appside") else "app"
        side = h if slot in ("all", "appside") else "s1"
        X = b.conn(app, side, client_version=[h, h])
        b.send(X, type="claim", nameplate=h, id=h)
        b.send(X, type="list")
        Y = b.conn(app, "other-side")
        b.send(Y, type="list")
        b.send(Y, type="claim", nameplate=h)
        b.send(Y, type="allocate")
        b.send(Y, type="list")
        mb = h if slot == "all" else claimed(X)
        b.send(X, type="open", mailbox=mb)
        b.send(X, type="add", phase=h, body=h + "-c17slot", id=h)
        b.send(Y, type="open", mailbox=mb)
        b.send(Y, type="add", phase="p", body="c17slot-reply-" + h)
        b.send(X, type="release", nameplate=h)
        b.send(Y, type="release")
        b.send(X, type="list")
        b.send(X, type="close", mailbox=mb, mood=h)
        b.send(Y, type="close", mood=h)
        b.send(X, type="ping", ping=h)
        b.adv(1300)
        out.append(("c17_every_slot:%d:%s" % (params["i"], slot), b.h, Config(usage=True, blur=None if params["i"] % 2 else 60), {}))
    return out


@family("C17", "C06")
def c17_cross_app_mailbox_id(params, tier):
    """F8: the same explicit mailbox id in two apps (the protocol document says ids can be re-used)."""
    if params is None:
        return [{"cmd": c} for c in ("open", "close")]
    b = HB()
    A = b.conn("app", "s1")
    b.send(A, type="open", mailbox="shared-id")
    B = b.conn("app2", "s1")
    if params["cmd"] == "open":
        b.send(B, type="open", mailbox="shared-id")
    else:
        b.send(B, type="close", mailbox="shared-id", mood="happy")
    return [("c17_cross_app_mailbox_id:%s" % params["cmd"], b.h, U, {})]
