"""Directed scenario families (DESIGN.md 2.7): short skeletons with the free parameters
enumerated.  directed_for(pid, tier) -> [(family, params)], build(pid, family, params) ->
iterable of (case name, history, cfg, run options)."""
import itertools
from .engine import Config

FAMILIES = {}


def family(*pids):
    def deco(f):
        for p in pids:
            FAMILIES.setdefault(p, []).append(f)
        return f
    return deco


def directed_for(pid, tier):
    out = []
    for f in FAMILIES.get(pid, []):
        for params in f(None, tier):
            out.append((f.__name__, params))
    return out


def build(pid, name, params):
    for f in FAMILIES.get(pid, []):
        if f.__name__ == name:
            return f(params, None)
    raise KeyError(name)
