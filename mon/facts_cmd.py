"""Command steps: protocol discipline (C17), footprint/frame rule (C06 C07 C08),
and the per-command oracles of C01-C05, C07, C08, C09(effects), C15, C16, C18(list)."""
from collections import Counter
from .model import *
from .model import _short, _tail, _d
from .proto import REJECTED, VALID, AMBIGUOUS
from .engine import T0


def _types(frames):
    return [f.get("type") for f in frames]


class CmdMixin(object):

    # ------------------------------------------------------------------
    def _on_cmd(self, world, st, d, ud):
        cm = self.cm.get(st.conn)
        msg = st.msg
        if cm is None or st.extra.get("dead"):
            return
        mine = [f for c, f in st.frames if c == st.conn]
        others = [(c, f) for c, f in st.frames if c != st.conn]
        from .facts import outside_input_space
        if outside_input_space(msg):
            # not judged; the connection's protocol state is unknown from here on (the history drops it next)
            cm.alive = False
            cm.sub = None
            if others:
                self.flag({"C17", "C02"}, "bind produced frames on other connections", st, {"frames": _short(others)})
            return
        cls, why = cm.classify(msg)
        st.extra["class"] = (cls, why)
        self.ev["classified_" + cls] += 1
        if cls == AMBIGUOUS:
            self.ambiguous[why] += 1
        typed = isinstance(msg, dict) and "type" in msg
        mtype = msg.get("type") if typed else None

        # --- obligations common to every command carrying a type: ack first
        if typed:
            self.ev["ack_first"] += 1
            if not mine or mine[0].get("type") != "ack" or mine[0].get("id") != msg.get("id"):
                if not st.exc:
                    self.flag({"C17"}, "first answer is not an ack echoing the id", st,
                              {"msg": _short(msg), "frames": _short(mine)})
            if _types(mine).count("ack") > 1:
                self.flag({"C17"}, "more than one ack", st, {"msg": _short(msg)})
        rest = mine[1:] if (typed and mine and mine[0].get("type") == "ack") else mine
        errors = [f for f in rest if f.get("type") == "error"]
        for f in errors:
            self.ev["error_has_orig"] += 1
            if f.get("orig") != msg or not isinstance(f.get("error"), str):
                self.flag({"C17"}, "error frame without the original message", st,
                          {"msg": _short(msg), "frame": _short(f)})

        if st.exc:
            cm.alive = False
            cm.sub = None
            # after the known cross-app id failure (F8) the history goes on: what the failed command left
            # behind for *other* clients is still judged; any other internal failure cuts the history
            if not (self.known and self.known[-1]["id"] == "F8" and self.known[-1]["step"] == st.i):
                self._after_internal_failure(st, cm, msg, cls)
            else:
                for mm in self.mb.values():
                    if mm.mid == msg.get("mailbox"):
                        mm.t_high = max(mm.t_high, st.t)
            return

        if cls == REJECTED:
            self.ev["rejected_cmd"] += 1
            if len(rest) != 1 or not errors:
                self.flag({"C17"}, "malformed/out-of-order command not answered by exactly one error", st,
                          {"why": why, "msg": _short(msg), "frames": _short(mine)})
            if others:
                self.flag({"C17", "C02"}, "rejected command produced frames elsewhere", st, {"frames": _short(others)})
            if d or ud:
                self.flag({"C17"}, "rejected command changed stored state", st,
                          {"why": why, "msg": _short(msg), "diff": _d(d), "udiff": _d(ud)})
            return

        h = getattr(self, "_cmd_" + str(mtype), None)
        if h is None:
            return
        err = errors[0].get("error") if errors else None
        if cls == VALID and err is not None and err not in ("crowded", "reclaimed"):
            # a command the statement lists as neither malformed nor out of order must not be refused
            # (typically: an earlier rejected command changed the connection's state)
            own = {"close": "C08", "release": "C07", "claim": "C03", "open": "C01", "add": "C02", "allocate": "C04"}
            self.ev["valid_cmd_not_refused"] += 1
            self.flag({"C17"} | ({own[mtype]} if mtype in own else set()), "well-formed, in-order command refused", st,
                      {"msg": _short(msg), "error": err})
        elif cls == VALID:
            self.ev["valid_cmd_not_refused"] += 1
        if len(errors) > 1:
            self.flag({"C17"}, "more than one error frame", st, {"msg": _short(msg)})
        ctx = {"cm": cm, "msg": msg, "rest": rest, "others": others, "err": err, "cls": cls,
               "d": d, "ud": ud, "allowed": [], "uallowed": 0, "dumps": (st.before, st.after)}
        h(world, st, ctx)
        # C06 (direct form, usage side): a command only ever writes usage rows of its own app
        for (t, k, old, new) in ud:
            if t in ("nameplates", "mailboxes", "client_versions") and new is not None and cm.bound:
                self.ev["c06_usage_row_owner"] += 1
                if new.get("app_id") != cm.app:
                    self.flag({"C06", "C15"}, "command wrote a usage row for another app", st,
                              {"table": t, "row": new, "conn_app": cm.app})
        self._footprint(world, st, ctx)
        self._message_frames_explained(world, st, ctx)

    def _after_internal_failure(self, st, cm, msg, cls):
        """The handler failed (already reported).  The history goes on: the model follows what the statements promise
        for the command - a release ends the side's claim, a close closes the side - so that what the failure leaves
        behind for later commands and other clients is still judged; where the statements leave the outcome open
        the objects named are tainted."""
        t = msg.get("type") if isinstance(msg, dict) else None
        if not cm.bound or cls != VALID:
            return
        if t == "release":
            name = msg.get("nameplate", cm.claim_name)
            key = (cm.app, name)
            n = self.np.get(key)
            if n is not None and not n.unknown_origin:
                n.released.add(cm.side)
                if not n.holders():
                    self.retired_np[key] = n.mid
                    self.np.pop(key, None)
        elif t == "close":
            mid = msg.get("mailbox", cm.opened_id)
            key = (cm.app, mid)
            m = self.mb.get(key)
            if m is not None and not m.unknown_origin:
                m.closed.add(cm.side)
                m.open_low.discard(cm.side)
                m.open_high.discard(cm.side)
                if not m.open_high and not (m.taint - SOFT):
                    self.mb.pop(key, None)
                    self.msgs.pop(key, None)
                    for other in self.cm.values():
                        if other.sub is m:
                            other.sub = None
                            other.stale = True
        else:
            for key, obj in list(self.np.items()) + list(self.mb.items()):
                if key[0] == cm.app and key[1] in (msg.get("nameplate"), msg.get("mailbox"), cm.holds, cm.claim_name):
                    obj.taint.add("ambiguous")

    # ------------------------------------------------------------------
    def _footprint(self, world, st, ctx):
        """Frame rule: every changed row must be one the command is entitled to change."""
        cm = ctx["cm"]
        self.ev["footprint"] += 1
        bad = []
        for ent in ctx["d"]:
            (t, k, old, new) = ent
            if not any(pred(t, k, old, new) for pred in ctx["allowed"]):
                bad.append(ent)
        if not bad:
            return
        props = set()
        for (t, k, old, new) in bad:
            row = new or old
            app = self._row_app(st, t, row)
            if app is not None and app != cm.app:
                props.add("C06")
            if t in ("nameplates", "nameplate_sides"):
                props.add("C07")
            else:
                props.add("C08")
            if t == "messages":
                props.add("C01")
        if isinstance(ctx["msg"], dict) and ctx["msg"].get("type") == "close":
            props.add("C08")        # "... while every other nameplate and mailbox is left untouched"
        if ctx["cls"] == AMBIGUOUS and not ("C06" in props):
            self.dontcare["footprint-ambiguous"] += 1
            return
        self.flag(props, "command changed rows it is not entitled to", st,
                  {"msg": _short(ctx["msg"]), "conn_app": cm.app, "conn_side": cm.side, "rows": _d(bad)})

    def _row_app(self, st, t, row):
        if t in ("nameplates", "mailboxes", "messages"):
            return row.get("app_id")
        if t == "nameplate_sides":
            for dd in (st.before, st.after):
                r = dd["nameplates"].get(row["nameplates_id"])
                if r:
                    return r["app_id"]
        if t == "mailbox_sides":
            for dd in (st.before, st.after):
                for r in dd["mailboxes"].values():
                    if r["id"] == row["mailbox_id"]:
                        return r["app_id"]
        return None

    def _message_frames_explained(self, world, st, ctx):
        """C02/C05: message frames only as replay to the opener or as fan-out of this add."""
        expl = ctx.get("explained", set())
        for idx, (c, f) in enumerate(st.frames):
            if f.get("type") == "message" and idx not in expl:
                self.flag({"C02", "C05"}, "unexplained message frame", st,
                          {"conn": c, "frame": _short(f), "msg": _short(ctx["msg"])})
        for (c, f) in ctx["others"]:
            if f.get("type") != "message":
                self.flag({"C02", "C17"}, "command produced a non-message frame on another connection", st,
                          {"conn": c, "frame": _short(f)})

    # ---- predicates for the footprint ---------------------------------
    @staticmethod
    def _p_mailbox_row(app, mid, may_delete=False, only_updated=True):
        def pred(t, k, old, new):
            if t != "mailboxes":
                return False
            row = new or old
            if row["app_id"] != app or row["id"] != mid:
                return False
            if new is None:
                return may_delete
            if old is None:
                return True
            ch = [c for c in new if new[c] != old[c]]
            return ch == ["updated"]
        return pred

    @staticmethod
    def _p_mailbox_side(mid, side, may_delete_all=False):
        def pred(t, k, old, new):
            if t != "mailbox_sides":
                return False
            row = new or old
            if row["mailbox_id"] != mid:
                return False
            if new is None:
                return may_delete_all
            return row["side"] == side
        return pred

    # ------------------------------------------------------------------
    def _cmd_ping(self, world, st, ctx):
        self.ev["ping_pong"] += 1
        rest = ctx["rest"]
        if len(rest) != 1 or rest[0].get("type") != "pong" or rest[0].get("pong") != ctx["msg"]["ping"]:
            self.flag({"C17"}, "ping not answered by pong with the same value", st,
                      {"msg": _short(ctx["msg"]), "frames": _short(rest)})

    def _cmd_bind(self, world, st, ctx):
        cm, msg = ctx["cm"], ctx["msg"]
        if ctx["err"] is not None or ctx["rest"]:
            self.flag({"C17"}, "valid bind answered with something", st, {"frames": _short(ctx["rest"])})
            return
        cm.bound = True
        cm.app = msg["appid"]
        cm.side = msg["side"]
        # usage: exactly one client_versions row, blurred connect time (C15/C16)
        if self.usage_on:
            self.ev["bind_usage_row"] += 1
            cv = msg.get("client_version", (None, None))
            exp = {"app_id": cm.app, "side": cm.side, "connect_time": self._blurred(st.t),
                   "implementation": cv[0], "version": cv[1]}
            rows = [new for (t, k, old, new) in ctx["ud"] if t == "client_versions" and old is None]
            oth = [e for e in ctx["ud"] if not (e[0] == "client_versions" and e[2] is None)]
            if len(rows) != 1 or oth:
                # whatever was written instead must still be blurred (C16)
                unblurred = [new for (t, k, old, new) in ctx["ud"] if t == "client_versions" and new is not None
                             and self.blur and (new.get("connect_time") is None or new["connect_time"] % self.blur != 0
                                                or not (st.t - self.blur < new["connect_time"] <= st.t))]
                self.flag({"C15"} | ({"C16"} if unblurred else set()), "bind did not write exactly one client_versions row", st,
                          {"udiff": _d(ctx["ud"]), "unblurred": unblurred[:2]})
            else:
                self._check_blur(st, "connect_time", rows[0]["connect_time"], st.t, "bind")
                r = dict(rows[0])
                if not _same_row(r, exp):
                    self.flag({"C15", "C16"}, "client_versions row differs from the bind", st, {"row": r, "expected": exp})
            ctx["uallowed"] = 1
        elif ctx["ud"]:
            pass

    def _blurred(self, t):
        if self.blur:
            return self.blur * (t // self.blur)
        return t

    def _check_blur(self, st, field, stored, true, path):
        """C16: stored is a multiple of the blur interval within (true - b, true]."""
        if not self.blur:
            return
        self.ev["c16_blur_" + path] += 1
        b = self.blur
        ok = (stored % b == 0) and (true - b < stored <= true)
        if not ok:
            self.flag({"C16"}, "usage timestamp not blurred correctly", st,
                      {"field": field, "stored": stored, "true": true, "blur": b, "path": path})

    def _cmd_list(self, world, st, ctx):
        cm = ctx["cm"]
        self.ev["list_answer"] += 1
        rest = ctx["rest"]
        if len(rest) != 1 or rest[0].get("type") != "nameplates" or not isinstance(rest[0].get("nameplates"), list):
            self.flag({"C18", "C17"}, "list not answered by one nameplates frame", st, {"frames": _short(rest)})
            return
        got = rest[0]["nameplates"]
        try:
            ids = sorted(x["id"] for x in got)
        except Exception:
            self.flag({"C18"}, "malformed nameplates answer", st, {"got": _short(got)})
            return
        live = sorted(r["name"] for r in st.before["nameplates"].values() if r["app_id"] == cm.app)
        exp = live if self.cfg.allow_list else []
        if ids != exp:
            props = {"C18"}
            if self.cfg.allow_list:
                props.add("C07")
                if any(r["name"] in ids for r in st.before["nameplates"].values() if r["app_id"] != cm.app):
                    props.add("C06")
            self.flag(props, "list answer is not exactly the live nameplates of the app", st,
                      {"got": ids, "expected": exp, "allow_list": self.cfg.allow_list})
        # tracker view (C07 ii/iii): held nameplates listed, fully released ones not
        if self.cfg.allow_list:
            for (app, name), n in self.np.items():
                if app != cm.app or (n.taint - SOFT):
                    continue
                self.ev["c07_listed_while_held"] += 1
                if n.holders() and name not in ids:
                    self.flag({"C07"}, "held nameplate missing from list", st, {"name": name, "holders": n.holders()})

    # ------------------------------------------------------------------
    def _cmd_allocate(self, world, st, ctx):
        cm = ctx["cm"]
        rest = ctx["rest"]
        self.ev["c04_allocate"] += 1
        if len(rest) != 1 or rest[0].get("type") != "allocated" or not isinstance(rest[0].get("nameplate"), str):
            used = {r["name"] for r in st.before["nameplates"].values() if r["app_id"] == cm.app}
            self.flag({"C04"}, "allocate not answered by one allocated frame", st,
                      {"frames": _short(rest), "in_use": len(used)})
            return
        name = rest[0]["nameplate"]
        cm.did_allocate = True
        cm.allocated_name = name
        used = {r["name"] for r in st.before["nameplates"].values() if r["app_id"] == cm.app}
        problems = allocation_problems(name, used)
        lost = self.lost_np.get((cm.app, name))
        if lost is not None and lost[1]:
            # its row was removed wrongly earlier (a violation already reported): the sides that never released still hold it
            problems.append("still held by %s (never released; its row had been removed wrongly)" % sorted(lost[1]))
        if problems:
            also = set()
            if NUM_RE.match(name):
                # C07: a retired nameplate "can be allocated again".  When every free value of the shortest band is a
                # name that was held before and allocate passes the whole band over, it treats them as not allocatable.
                for size in (1, 2, 3):
                    free = [v for v in ("%d" % i for i in range(10 ** (size - 1), 10 ** size)) if v not in used]
                    if free:
                        if len(name) > size and all((cm.app, v) in self.np_ever for v in free):
                            also.add("C07")
                        break
            self.flag({"C04"} | also | ({"C18"} if not self.cfg.allow_list else set()),
                      "allocated nameplate violates free/shortest rule", st,
                      {"name": name, "problems": problems, "in_use": sorted(used)[:40]})
        # held when the answer is sent: checked at emission by C04's frame hook too; here after the step
        rows = np_find(st.after, cm.app, name)
        held = False
        mid = None
        if len(rows) == 1:
            npid, r = rows[0]
            mid = r["mailbox_id"]
            held = any(s["side"] == cm.side and s["claimed"] for _, s in np_sides(st.after, npid))
        if not held:
            self.flag({"C04", "C09"}, "allocated nameplate not held by the allocating side", st, {"name": name})
            return
        n = NpInc(cm.app, name, self._new_n(), st.t)
        self.np_ever.add((cm.app, name))
        n.rowid, n.mid = rows[0][0], mid
        n.attempts.append((cm.side, st.t))
        n.ok.append(cm.side)
        self.np[(cm.app, name)] = n
        self._c03_new_mid(st, n, mid)
        m = MbInc(cm.app, mid, self._new_n(), st.t)
        m.for_nameplate = True
        m.touch(cm.side, st.t)
        m.open_high.add(cm.side)
        self.mb[(cm.app, mid)] = m
        npid = rows[0][0]
        ctx["allowed"] += [
            lambda t, k, old, new: t == "nameplates" and old is None and k == npid,
            lambda t, k, old, new: t == "nameplate_sides" and old is None and new["nameplates_id"] == npid and new["side"] == cm.side,
            lambda t, k, old, new: t == "mailboxes" and old is None and new["id"] == mid and new["app_id"] == cm.app,
            lambda t, k, old, new: t == "mailbox_sides" and old is None and new["mailbox_id"] == mid and new["side"] == cm.side,
        ]
        self._no_usage_change(st, ctx, "allocate")

    def _no_usage_change(self, st, ctx, what):
        if self.usage_on:
            self.ev["c15_no_record_without_retirement"] += 1
            if ctx["ud"]:
                self.flag({"C15"}, "usage row written with no retirement", st, {"cmd": what, "udiff": _d(ctx["ud"])})

    def _c03_new_mid(self, st, n, mid):
        """C03: a mailbox id handed out for a new nameplate incarnation was never handed out before."""
        self.ev["c03_fresh_id"] += 1
        prev = self.mid_owner.get(mid)
        key = (n.app, n.name, n.n)
        if prev is not None and prev != key:
            self.flag({"C03"}, "mailbox id reused for another nameplate incarnation", st,
                      {"mailbox": mid, "now": key, "before": prev})
        self.mid_owner[mid] = key

    # ------------------------------------------------------------------
    def _cmd_claim(self, world, st, ctx):
        cm, msg, rest, err = ctx["cm"], ctx["msg"], ctx["rest"], ctx["err"]
        name = msg["nameplate"]
        if ctx["cls"] == AMBIGUOUS:
            n = self.np.get((cm.app, name))
            got_claimed = any(f.get("type") == "claimed" for f in rest)
            if n is not None:
                n.taint.add("ambiguous")
                m = self.mb.get((cm.app, n.mid))
                if m is not None:
                    m.taint.add("ambiguous")
                    m.t_high = max(m.t_high, st.t)
                    if got_claimed or err == "crowded":
                        m.touch(cm.side, st.t)
                        if len(m.sides) > 2:
                            m.taint.add("crowd")
                        if all(x != cm.side for x, _ in n.attempts):
                            n.attempts.append((cm.side, st.t))
                    if got_claimed:
                        m.open_high.add(cm.side)
                        if cm.side not in n.ok:
                            n.ok.append(cm.side)
            ctx["allowed"].append(lambda *a: True)
            return
        cm.claim_name = name
        claimed = [f for f in rest if f.get("type") == "claimed"]
        ok = len(rest) == 1 and len(claimed) == 1 and isinstance(claimed[0].get("mailbox"), str)
        cm.claim_state = "ok" if ok else "failed"
        if not ok and err not in ("crowded", "reclaimed"):
            self.flag({"C03", "C17"}, "claim answered neither claimed nor crowded/reclaimed", st,
                      {"frames": _short(rest)})
            return
        key = (cm.app, name)
        n = self.np.get(key)
        before_rows = np_find(st.before, cm.app, name)
        after_rows = np_find(st.after, cm.app, name)
        if n is None:
            # first claim of a new incarnation
            self.ev["c03_first_claim"] += 1
            if not ok:
                self.flag({"C03", "C07"}, "first claim of a free nameplate refused", st, {"name": name, "err": err})
                return
            mid = claimed[0]["mailbox"]
            lost = self.lost_np.pop(key, None)
            if lost is not None:
                self.ev["c03_claim_after_wrong_removal"] += 1
                if lost[1] and mid != lost[0]:
                    # the nameplate never stopped being live (sides that never released hold it; its row was removed
                    # wrongly, which was reported): every claimant, old or new, is told the one mailbox id
                    self.flag({"C03"}, "a side still holding the nameplate is told a different mailbox id when it claims again"
                              if cm.side in lost[1] else
                              "a claimant of a nameplate that other sides still hold is told a different mailbox id than they were", st,
                              {"name": name, "side": cm.side, "told": mid, "earlier": lost[0], "holders": sorted(lost[1])})
            n = NpInc(cm.app, name, self._new_n(), st.t)
            self.np_ever.add((cm.app, name))
            n.mid = mid
            n.attempts.append((cm.side, st.t))
            n.ok.append(cm.side)
            self.np[key] = n
            self._c03_new_mid(st, n, mid)
            if len(after_rows) != 1 or after_rows[0][1]["mailbox_id"] != mid:
                self.flag({"C03", "C09"}, "claimed id is not the stored nameplate's mailbox", st,
                          {"name": name, "mailbox": mid, "rows": _short(after_rows)})
            else:
                n.rowid = after_rows[0][0]
            if (cm.app, mid) in self.mb:
                self.flag({"C03"}, "new nameplate given a mailbox id that is already live", st, {"mailbox": mid})
            m = MbInc(cm.app, mid, self._new_n(), st.t)
            m.for_nameplate = True
            m.touch(cm.side, st.t)
            m.open_high.add(cm.side)
            self.mb[(cm.app, mid)] = m
            self._claim_footprint(ctx, cm, name, mid, creating=True)
            self._effects_claim(st, cm, name, mid)
            self._no_usage_change(st, ctx, "claim")
            return
        # nameplate is live
        m = self.mb.get((cm.app, n.mid))
        self._claim_footprint(ctx, cm, name, n.mid, creating=False)
        self._no_usage_change(st, ctx, "claim")
        if cm.side in n.released:
            # C07 (v): a side that released a still-live nameplate cannot claim it again
            self.ev["c07_reclaim_refused"] += 1
            if err != "reclaimed":
                self.flag({"C07"}, "re-claim after release not answered reclaimed", st,
                          {"name": name, "side": cm.side, "frames": _short(rest)})
            if ctx["d"]:
                self.flag({"C07"}, "refused re-claim changed stored state", st, {"diff": _d(ctx["d"])})
            return
        if all(s != cm.side for s, _ in n.attempts):
            n.attempts.append((cm.side, st.t))
        if m is None:
            n.taint.add("no-mailbox")
            return
        idx = m.touch(cm.side, st.t)
        if cm.side in m.closed:
            m.taint.add("reopen")
        if idx >= 2:
            # C05: third side learns nothing
            self.ev["c05_third_claim"] += 1
            m.taint.add("crowd")
            n.taint.add("crowd")
            if ok or err != "crowded":
                self.flag({"C05"}, "third side's claim not refused as crowded", st,
                          {"name": name, "side": cm.side, "sides": m.side_names(), "frames": _short(rest)})
            return
        # one of the first two sides
        if not ok:
            if err == "crowded" and len(m.sides) >= 3:
                # the refused claim nevertheless left this side's claim row on the nameplate
                n.taint.add("crowd")
                m.taint.add("crowd")
                self.known_finding("F7", {"C05", "C14"}, st,
                                   {"cmd": "claim", "side": cm.side, "sides": m.side_names()})
                return
            if err == "reclaimed" and "unknown-origin" in n.taint:
                return
            self.flag({"C05", "C03"}, "claim by one of the first two sides refused", st,
                      {"name": name, "side": cm.side, "err": err, "sides": m.side_names()})
            return
        self.ev["c03_same_id"] += 1
        mid = claimed[0]["mailbox"]
        if n.unknown_origin and self.retired_np.get(key) == mid:
            self.flag({"C03"}, "claim after the nameplate's retirement is told the previous incarnation's mailbox id", st,
                      {"name": name, "mailbox": mid})
        if mid != n.mid:
            self.flag({"C03"}, "claimants of one nameplate told different mailbox ids", st,
                      {"name": name, "told": mid, "earlier": n.mid})
        if len(after_rows) != 1 or after_rows[0][1]["mailbox_id"] != mid:
            self.flag({"C03", "C07"}, "claimed id is not the stored nameplate's mailbox", st, {"name": name})
        if n.rowid is not None and after_rows and after_rows[0][0] != n.rowid and "unknown-origin" not in n.taint:
            self.flag({"C03", "C07"}, "nameplate row replaced while held", st, {"name": name})
        if cm.side not in n.ok:
            n.ok.append(cm.side)
        self.ev["c05_two_sides_told"] += 1
        if len(set(n.ok)) > 2:
            self.flag({"C05"}, "more than two sides told a nameplate's mailbox id", st, {"name": name, "sides": n.ok})
        m.open_high.add(cm.side)
        m.t_low = max(m.t_low, st.t)
        self._effects_claim(st, cm, name, mid)

    def _claim_footprint(self, ctx, cm, name, mid, creating):
        app, side = cm.app, cm.side

        def p_np(t, k, old, new):
            return t == "nameplates" and old is None and creating and new["app_id"] == app and new["name"] == name

        def p_nps(t, k, old, new):
            if t != "nameplate_sides" or old is not None:
                return False
            return new["side"] == side and self._npid_is(ctx, new["nameplates_id"], app, name)
        ctx["allowed"] += [p_np, p_nps, self._p_mailbox_row(app, mid), self._p_mailbox_side(mid, side)]

    def _npid_is(self, ctx, npid, app, name):
        for dd in ctx["dumps"]:
            r = dd["nameplates"].get(npid)
            if r is not None:
                return r["app_id"] == app and r["name"] == name
        return False

    def _effects_claim(self, st, cm, name, mid):
        """C09 (c): what `claimed` acknowledges is committed (independent reader, after the step)."""
        self.ev["c09_effects_claimed"] += 1
        rows = np_find(st.after, cm.app, name)
        ok = False
        if len(rows) == 1:
            ok = any(s["side"] == cm.side and s["claimed"] for _, s in np_sides(st.after, rows[0][0])) and \
                any(s["side"] == cm.side for _, s in mb_sides(st.after, mid))
        if not ok:
            self.flag({"C09"}, "effects acknowledged by `claimed` not committed", st, {"name": name, "side": cm.side})

    # ------------------------------------------------------------------
    def _cmd_release(self, world, st, ctx):
        cm, msg, rest = ctx["cm"], ctx["msg"], ctx["rest"]
        if ctx["cls"] == AMBIGUOUS:
            nm = msg.get("nameplate", cm.claim_name)
            n = self.np.get((cm.app, nm))
            if n is not None:
                n.taint.add("ambiguous")
            ctx["allowed"].append(lambda *a: True)
            if ctx["err"] is None:
                cm.did_release = True
            return
        name = msg["nameplate"] if "nameplate" in msg else cm.claim_name
        self.ev["c07_release_answered"] += 1
        if len(rest) != 1 or rest[0].get("type") != "released":
            self.flag({"C07"}, "release not answered released", st, {"name": name, "frames": _short(rest)})
            return
        cm.did_release = True
        n = self.np.get((cm.app, name))
        if n is None:
            self.ev["c07_release_nothing"] += 1
            if ctx["d"] or ctx["ud"]:
                self.flag({"C07"}, "release of a nameplate that does not exist changed state", st, {"diff": _d(ctx["d"])})
            return
        attempted = any(s == cm.side for s, _ in n.attempts) or n.unknown_origin
        if not attempted:
            # release by a side that holds no claim changes nothing
            self.ev["c07_release_by_stranger"] += 1
            if ctx["d"] or ctx["ud"]:
                self.flag({"C07"}, "release by a side without a claim changed state", st,
                          {"name": name, "side": cm.side, "diff": _d(ctx["d"])})
            return
        npid = n.rowid
        app = cm.app
        side = cm.side

        def p_flag(t, k, old, new):
            if t != "nameplate_sides" or old is None or new is None:
                return False
            return old["side"] == side and self._npid_is(ctx, old["nameplates_id"], app, name) and \
                [c for c in new if new[c] != old[c]] == ["claimed"] and not new["claimed"]

        def p_del(t, k, old, new):
            if new is not None:
                return False
            if t == "nameplates":
                return old["app_id"] == app and old["name"] == name
            if t == "nameplate_sides":
                return self._npid_is(ctx, old["nameplates_id"], app, name)
            return False
        ctx["allowed"] += [p_flag, p_del]
        if n.mid is not None:
            # stamping the activity time of the mailbox the nameplate points at is not forbidden by any property
            ctx["allowed"].append(self._p_mailbox_row(app, n.mid))
        was_holder = cm.side in n.holders()
        n.released.add(cm.side)
        rows_after = np_find(st.after, cm.app, name)
        gone = not rows_after
        if n.holders() and gone and not n.unknown_origin:
            # a release never retires a nameplate that other sides still hold: whatever made this happen
            # (possibly a violation reported several steps ago), those sides still hold the name (C03, C04)
            self.lost_np[(cm.app, name)] = (n.mid, set(n.holders()))
        if n.holders():
            # C07 (ii): others still hold it
            self.ev["c07_survives_others_hold"] += 1
            if not n.taint - {"crowd"} - SOFT:
                if gone or rows_after[0][1]["mailbox_id"] != n.mid:
                    self.flag({"C07"}, "nameplate removed/re-bound while another side still holds it", st,
                              {"name": name, "holders": n.holders(), "released_by": cm.side})
                else:
                    for h in n.holders():
                        if not any(s["side"] == h and s["claimed"] for _, s in np_sides(st.after, rows_after[0][0])):
                            self.flag({"C07"}, "another side's claim ended by this release", st,
                                      {"name": name, "holder": h, "released_by": cm.side})
        else:
            if n.taint - SOFT:
                self.dontcare["c07_last_release_tainted"] += 1
            else:
                self.ev["c07_gone_after_last_release"] += 1
                if not gone:
                    self.flag({"C07"}, "nameplate still stored after its last release", st, {"name": name})
                    # the incarnation is over whatever the store says (C03 judges the next claim against this)
                    self.retired_np[(cm.app, name)] = n.mid
                    self.np.pop((cm.app, name), None)
        # effects acknowledged by `released` are committed (C09 c)
        self.ev["c09_effects_released"] += 1
        if not gone:
            if any(s["side"] == cm.side and s["claimed"] for _, s in np_sides(st.after, rows_after[0][0])):
                self.flag({"C09", "C07"}, "released acknowledged but the claim is still stored", st, {"name": name})
        # usage: one nameplate record iff retired (C15)
        if self.usage_on:
            self._usage_nameplate_retired(st, ctx, n, gone, pruned=False)
        if gone:
            self.np.pop((cm.app, name), None)
            # releasing never touches the mailbox
            m = self.mb.get((cm.app, n.mid))
            if m is not None:
                m.t_high = max(m.t_high, st.t)


def _same_row(r, exp):
    for k, v in exp.items():
        if r.get(k) != v:
            return False
    return True


def allocation_problems(name, used):
    """C04 (a)-(c) for one allocated name against the set of names in use before the command."""
    problems = []
    if not NUM_RE.match(name):
        problems.append("not a positive decimal without leading zeros")
        return problems
    if name in used:
        problems.append("already in use")
    shortest = None
    for size in (1, 2, 3):
        lo, hi = 10 ** (size - 1), 10 ** size
        if any(("%d" % i) not in used for i in range(lo, hi)):
            shortest = size
            break
    if shortest is not None:
        if len(name) != shortest:
            problems.append("length %d but a free value of length %d exists" % (len(name), shortest))
    else:
        if not (4 <= len(name) <= 6):
            problems.append("all short names taken, length %d not in 4..6" % len(name))
    return problems
