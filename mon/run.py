"""Execute symbolic histories against the real server under the tracker."""
import json, os, copy
from .engine import World, Config, new_workdir, rmtree, T0, Inconclusive
from .facts import Tracker
from .model import EXPIRY, PERIOD


class Exec(object):
    """One execution of one history on one World."""

    def __init__(self, cfg=None, seed=0, track=True, workdir=None, timer=True, monitors=(), t0=None, legacy=False):
        self.cfg = copy.copy(cfg) if cfg is not None else Config()      # a restart step may change options
        self.legacy = legacy
        self.own_dir = workdir is None
        self.workdir = workdir or new_workdir("h")
        self.tracker = Tracker(self.cfg) if track else None
        mons = ([self.tracker] if track else []) + list(monitors)
        self.world = World(self.workdir, self.cfg, seed=seed, monitors=mons)
        self.timer = timer
        self.allocs = {}      # conn -> allocated nameplate
        self.claims = {}      # conn -> claimed mailbox
        self.executed = 0
        self.started = False
        if t0 is not None:
            self.world.set_time(t0)
        else:
            self.world.set_time(T0)

    def start(self):
        if self.legacy:
            self.make_legacy_files()
        self.world.start(start_timer=self.timer)
        self.started = True
        return self

    def make_legacy_files(self):
        """Database files as an earlier installation of the same schema version left them: created from the
        schema snapshots kept in mon/legacy/ (channel v1, usage v2), not from the tree under test.  A tree that
        changes its schema files without a version bump and upgrader must still work on such files."""
        import sqlite3
        here = os.path.join(os.path.dirname(os.path.abspath(__file__)), "legacy")
        # every second legacy run: the usage database is still at version 1 (the server upgrades it at its first start;
        # the upgraded connection is the one the service then keeps using)
        usage = ("usage-v1.sql", 1) if (self.world.seed // 4) % 2 else ("usage-v2.sql", 2)
        for path, schema, version in ((self.world.channel_path, "channel-v1.sql", 1), (self.world.usage_path,) + usage):
            if os.path.exists(path) or (schema.startswith("usage") and not self.cfg.usage):
                continue
            c = sqlite3.connect(path)
            c.executescript(open(os.path.join(here, schema)).read())
            c.execute("INSERT INTO version (version) VALUES (?)", (version,))
            c.commit()
            c.close()

    def resolve(self, v):
        if isinstance(v, dict):
            if "$alloc" in v and len(v) == 1:
                return self.allocs.get(v["$alloc"], "unallocated-" + v["$alloc"])
            if "$claimed" in v and len(v) == 1:
                return self.claims.get(v["$claimed"], "unclaimed-" + v["$claimed"])
            return {k: self.resolve(x) for k, x in v.items()}
        if isinstance(v, list):
            return [self.resolve(x) for x in v]
        return v

    def note(self, st):
        for c, f in st.frames:
            if c != st.conn:
                continue
            if f.get("type") == "allocated" and isinstance(f.get("nameplate"), str):
                self.allocs[c] = f["nameplate"]
            elif f.get("type") == "claimed" and isinstance(f.get("mailbox"), str):
                self.claims[c] = f["mailbox"]

    def halted(self):
        return self.tracker is not None and self.tracker.halted

    def step(self, s):
        w = self.world
        op = s[0]
        if op == "connect":
            w.connect(s[1])
        elif op == "send":
            if s[1] not in w.conns:
                return
            msg = self.resolve(s[2])
            st = w.send(s[1], msg)
            self.note(st)
        elif op == "drop":
            if s[1] in w.conns:
                w.drop(s[1])
        elif op == "closing":
            if s[1] in w.conns:
                w.begin_close(s[1])
        elif op == "halfconn":
            w.half_connection(s[1])
        elif op == "hold":
            self._pump_mode_before = w.pump_mode
            w.pump_mode = "hold"
        elif op == "turns":
            w.pump_rounds(s[1])
        elif op == "unhold":
            w.pump_mode = getattr(self, "_pump_mode_before", "eager")
            w.pump_rounds(50)
        elif op == "adv":
            w.advance(s[1])
        elif op == "jump":
            if self.tracker is not None:
                self.tracker.irregular_sweeps = True
            w.jump(s[1])
        elif op == "restart":
            if self.tracker is not None and self.timer and not self.tracker.irregular_sweeps:
                self.tracker.check_sweep_counts(w)      # (without the service's timer the harness decides when sweeps run)
            w.stop()
            if len(s) > 1 and isinstance(s[1], dict):
                # the operator restarts the service with other options on the same files
                for k, v in s[1].items():
                    setattr(self.cfg, k, v)
                if self.tracker is not None:
                    self.tracker.blur = self.cfg.blur
                    self.tracker.usage_on = self.cfg.usage
            w.start(start_timer=self.timer)
        elif op == "sweep":
            w.explicit_sweep()
        elif op == "dropall":
            for n in w.alive_conns():
                w.drop(n)
        else:
            raise ValueError("unknown step %r" % (s,))
        self.executed += 1

    def run(self, hist, stop_on_violation=True, stop_prop=None):
        if not self.started:
            self.start()
        for s in hist:
            if self.halted():
                break
            self.step(s)
            if stop_on_violation and self.tracker is not None and self.tracker.violations:
                if stop_prop is None or any(stop_prop in v["props"] for v in self.tracker.violations):
                    break
        return self

    def quiesce(self):
        """Everybody leaves; expiry + 2 periods (and a bit) pass; the store must be empty (C13)."""
        if self.halted():
            return
        w = self.world
        for n in w.alive_conns():
            w.drop(n)
        w.advance(EXPIRY + 2 * PERIOD + 1)
        if self.tracker is not None and self.timer:
            if not self.tracker.irregular_sweeps:
                self.tracker.check_sweep_counts(w)
            self.tracker.check_quiescent(w)

    def close(self):
        try:
            self.world.close()
        finally:
            if self.own_dir:
                rmtree(self.workdir)

    def log(self, last=None):
        steps = self.world.steps
        if last is not None:
            steps = steps[-last:]
        return [s.brief() for s in steps]


def run_history(hist, cfg=None, seed=0, quiesce=True, timer=True, stop_on_violation=True):
    ex = Exec(cfg, seed=seed, timer=timer)
    try:
        ex.run(hist, stop_on_violation=stop_on_violation)
        if quiesce and not (stop_on_violation and ex.tracker.violations):
            ex.quiesce()
        return ex
    finally:
        ex.close()
