"""Database files *with content*, as the reference tree (the /repo HEAD these checks were built against) leaves them
after a prefix history, kept under mon/legacy/fixtures/.  A tree that changes what it stores, or how it reads it,
without a schema version and an upgrader behaves differently on such files than on files it wrote itself:

    run A   tree under test executes the prefix itself, is restarted, then executes a continuation
    run B   tree under test is started on the kept files (written by the reference tree), then the same continuation

Per property a projection of what the clients of the continuation observe (and of the final store) is compared.
Regenerate with tools/mkfixtures.py whenever the reference tree changes what it stores.
"""
import os, json, shutil
from .engine import Config, T0
from .run import Exec
from .scenarios import HB, claimed
from . import diff
from .gen import Gen

HERE = os.path.join(os.path.dirname(os.path.abspath(__file__)), "legacy", "fixtures")


def _crowded(b):
    for app in ("app", "app2"):
        A = b.conn(app, "s1"); b.send(A, type="open", mailbox="m1.%d" % (0 if app == "app" else 1)); b.add(A, "pake", id="1234")
        B = b.conn(app, "s2"); b.send(B, type="open", mailbox="m1.%d" % (0 if app == "app" else 1)); b.add(B, "pake", id="12e4")
        if app == "app":
            C = b.conn(app, "s3"); b.send(C, type="open", mailbox="m1.0")        # refused: a third side row stays
        b.adv(3.5)


def _claims(b):
    for app in ("app", "app2"):
        A = b.conn(app, "s1"); b.send(A, type="claim", nameplate="4"); b.send(A, type="open", mailbox=claimed(A))
        for mid in ("0x1", "true", "null", " 7", "007", "1e3", ""):
            b.add(A, "ph", id=mid)
        b.adv(1.25)
        B = b.conn(app, "s2"); b.send(B, type="claim", nameplate="4"); b.send(B, type="open", mailbox=claimed(B)); b.add(B, "ph2")
        X = b.conn(app, "s1"); b.send(X, type="claim", nameplate="7")
        Y = b.conn(app, "s3"); b.send(Y, type="claim", nameplate="x")
        b.adv(2)


def _half(b):
    for app in ("app", "app2"):
        A = b.conn(app, "s1"); b.send(A, type="claim", nameplate="7"); b.send(A, type="open", mailbox=claimed(A)); b.add(A, "a")
        B = b.conn(app, "s2"); b.send(B, type="claim", nameplate="7"); b.send(B, type="open", mailbox=claimed(B)); b.add(B, "b")
        b.adv(5)
        b.send(A, type="release")
        b.send(A, type="close", mood="lonely")
        C = b.conn(app, "s1"); b.send(C, type="claim", nameplate="4")
        D = b.conn(app, "s3"); b.send(D, type="claim", nameplate="4")
        E = b.conn(app, "s2"); b.send(E, type="claim", nameplate="4")        # refused (crowded): its claim row stays
        b.adv(1)


SPECS = {"crowded": _crowded, "claims": _claims, "half": _half}
NAMES = ["4", "7", "x", "1", "2"]


def prefix(name):
    b = HB()
    b.tag = "fx" + name[0]
    b.adv(17.5)
    SPECS[name](b)
    b.h.append(["dropall"])

    # the prefix's connections get names of their own (the continuation's are c1, c2, ...)
    def ren(v):
        if isinstance(v, dict):
            return {k: ("p" + x if k in ("$claimed", "$alloc") and isinstance(x, str) else ren(x)) for k, x in v.items()}
        if isinstance(v, list):
            return [ren(x) for x in v]
        return v
    out = []
    for s in b.h:
        s = list(s)
        if s[0] in ("connect", "send", "drop", "closing"):
            s[1] = "p" + s[1]
        if s[0] == "send":
            s[2] = ren(s[2])
        out.append(s)
    return out


def cfg_for(name):
    return Config(usage=(name != "crowded"), blur=None)


def continuation(seed):
    s = seed * 10 + (seed % 4)           # plain identifier class (gen.py: seed % 10 in 0..3)
    g = Gen(s, napps=2, nsides=3, steps=45, names=NAMES, restarts=False, p_illegal=0.03, bad_client_version=False)
    return g.gen()


def generate_all():
    """Write the fixture files from the tree the engine is pointed at (the reference tree)."""
    os.makedirs(HERE, exist_ok=True)
    for name in SPECS:
        ex = Exec(cfg_for(name), seed=0, track=False)
        try:
            ex.run(prefix(name))
            t_end = ex.world.now
            ex.world.stop()
            for f in ("channel.sqlite", "usage.sqlite"):
                src = os.path.join(ex.workdir, f)
                if os.path.exists(src):
                    shutil.copy(src, os.path.join(HERE, "%s.%s" % (name, f)))
            json.dump({"t_end": t_end, "prefix": prefix(name)}, open(os.path.join(HERE, name + ".json"), "w"), indent=1)
        finally:
            ex.close()


def _record(ex, cont):
    rec = diff.record(ex, cont)
    return rec


def run_pair(name, seed):
    """-> (recA, recB, cont, counters)"""
    meta = json.load(open(os.path.join(HERE, name + ".json")))
    cont = continuation(seed)
    cfg = cfg_for(name)
    a = Exec(cfg, seed=seed, track=False)
    try:
        a.run(meta["prefix"])
        a.step(["restart"])
        recA = _record(a, cont)
        cntA = dict(a.world.counters)
    finally:
        a.close()
    from .engine import new_workdir, rmtree
    wd = new_workdir("fx")
    try:
        for f in ("channel.sqlite", "usage.sqlite"):
            src = os.path.join(HERE, "%s.%s" % (name, f))
            if os.path.exists(src):
                shutil.copy(src, os.path.join(wd, f))
        b = Exec(cfg, seed=seed, track=False, workdir=wd, t0=meta["t_end"])
        try:
            b.start()
            recB = _record(b, cont)
            cntB = dict(b.world.counters)
        finally:
            b.close()
    finally:
        rmtree(wd)
    return recA, recB, cont, {"steps": cntA["steps"] + cntB["steps"], "frames": cntA["frames"] + cntB["frames"]}


def projection(pid, rec, cont):
    """What the property speaks about, per step of the continuation (ids renamed by first appearance in it)."""
    can = diff.Canon()
    out = []
    for s, step in zip(cont, rec.steps):
        for c, f in step["frames"]:
            if f.get("type") == "claimed":
                can.learn(f.get("mailbox"))
        if s[0] != "send" or not isinstance(s[2], dict):
            continue
        t = s[2].get("type")
        mine = [can.apply({k: v for k, v in f.items() if k not in ("server_tx", "id")}) for c, f in step["frames"] if c == s[1]]
        others = sorted([c, can.apply({k: v for k, v in f.items() if k not in ("server_tx",)})] for c, f in step["frames"] if c != s[1])
        errs = [f.get("error") for f in mine if f.get("type") == "error"]
        msgs = sorted(repr((f.get("side"), f.get("phase"), f.get("body"), f.get("server_rx"))) for f in mine if f.get("type") == "message")
        ids = sorted(repr(f2.get("id")) for c, f2 in step["frames"] if c == s[1] and f2.get("type") == "message")
        if pid == "C01" and t == "open":
            out.append(["open", errs, msgs, ids])
        elif pid == "C02" and t == "add":
            out.append(["add", errs, others])
        elif pid == "C03" and t == "claim":
            out.append(["claim", [f.get("mailbox") for f in mine if f.get("type") == "claimed"], [e for e in errs if e != "crowded"]])
        elif pid == "C05" and t in ("claim", "open", "close"):
            out.append([t, "crowded" in errs, len(msgs)])
        elif pid == "C07" and t in ("list", "release", "claim"):
            out.append([t, errs, [sorted(x.get("id") for x in f.get("nameplates", [])) for f in mine if f.get("type") == "nameplates"],
                        [f.get("type") for f in mine if f.get("type") in ("released", "claimed")]])
        elif pid == "C08" and t == "close":
            out.append(["close", errs, [f.get("type") for f in mine if f.get("type") == "closed"]])
        elif pid == "C06":
            out.append([t, mine, others])
        if step["exc"]:
            out.append(["handler failed", step["exc"]])
    store = diff.canon_store(rec.final, can)
    if pid in ("C01", "C02"):
        store = [[m[0], m[1], m[5]] for m in store["mailboxes"]]
    elif pid in ("C03", "C07"):
        store = store["nameplates"]
    elif pid == "C05":
        store = [[m[0], m[1], [x[0] for x in m[4]]] for m in store["mailboxes"]]
    elif pid == "C08":
        store = [[m[0], m[1], m[4]] for m in store["mailboxes"]]
    return {"steps": out, "store": store}
