"""Crash and fault injection around the database-file routines of `database.py`
(DESIGN.md 2.5): real process death at the k-th event in a forked child (SQL statement via trace
callback, file-system call via audit hook), exceptions at the k-th event in-process (audit hook,
sqlite authorizer denial inside scripts, execute() failpoint, sys.monitoring LINE failpoint), and
strace-injected SIGKILL at the k-th write-side system call of a real subprocess."""
import os, sys, sqlite3, subprocess, hashlib, json, shutil, tempfile
from . import engine
from .engine import load_server_modules, SHIM, Hooks, ObservedConnection

FS_EVENTS = {"open", "os.rename", "os.remove", "os.unlink", "tempfile.mkstemp", "sqlite3.connect", "sqlite3.connect/handle",
             "shutil.copyfile", "shutil.copymode", "os.chmod", "os.truncate", "os.mkdir", "shutil.copystat", "os.utime"}


class Audit(object):
    installed = False
    mode = None          # None | "count" | "die" | "raise"
    k = 0
    n = 0
    fired = None
    root = None

    @classmethod
    def install(cls):
        if not cls.installed:
            sys.addaudithook(cls.hook)
            cls.installed = True

    @classmethod
    def hook(cls, event, args):
        if cls.mode is None or event not in FS_EVENTS:
            return
        # only events that concern the scratch directory under test
        if cls.root is not None:
            hit = False
            for a in args[:2]:
                if isinstance(a, (str, bytes)):
                    s = a.decode("utf-8", "replace") if isinstance(a, bytes) else a
                    if s.startswith(cls.root) or (s.startswith("file:") and cls.root in s):
                        hit = True
                elif isinstance(a, int) and event in ("os.chmod", "os.truncate"):
                    hit = True
            if event == "tempfile.mkstemp":
                hit = True
            if not hit:
                return
        cls.n += 1
        if cls.mode == "die" and cls.n == cls.k:
            os._exit(77)
        if cls.mode == "raise" and cls.n == cls.k:
            cls.fired = event
            cls.mode = None
            raise OSError(28, "No space left on device (injected at %s)" % event)


class Trace(object):
    """Statement-level events through sqlite's trace callback (sees statements inside executescript)."""
    mode = None
    k = 0
    n = 0
    log = []

    @classmethod
    def cb(cls, sql):
        if cls.mode is None:
            return
        cls.n += 1
        if cls.mode == "count":
            cls.log.append(sql[:60])
        if cls.mode == "die" and cls.n == cls.k:
            os._exit(78)


class TracedConnection(ObservedConnection):
    authorizer = None

    def __init__(self, database, *a, **kw):
        ObservedConnection.__init__(self, database, *a, **kw)
        self.set_trace_callback(Trace.cb)
        if TracedConnection.authorizer is not None:
            self.set_authorizer(TracedConnection.authorizer)


class Auth(object):
    """Exception failpoint inside scripts: deny the k-th authorisation request."""
    k = 0
    n = 0
    mode = None
    fired = None

    @classmethod
    def cb(cls, action, a1, a2, dbname, source):
        if cls.mode is None:
            return sqlite3.SQLITE_OK
        cls.n += 1
        if cls.mode == "raise" and cls.n == cls.k:
            cls.fired = (action, a1, a2)
            cls.mode = None
            return sqlite3.SQLITE_DENY
        return sqlite3.SQLITE_OK


class ShimT(type(SHIM)):
    def connect(self, database, *a, **kw):
        kw.setdefault("factory", TracedConnection)
        return sqlite3.connect(database, *a, **kw)


def install_traced_shim():
    server, tap, ws, database = load_server_modules()
    shim = ShimT()
    database.sqlite3 = shim
    Hooks.world = None
    return database


def forked(fn):
    """Run fn() in a forked child; -> exit status (0 = completed, 77/78 = died at the injected point)."""
    sys.stdout.flush()
    sys.stderr.flush()
    pid = os.fork()
    if pid == 0:
        code = 0
        try:
            fn()
        except SystemExit as e:
            code = e.code or 0
        except BaseException:
            code = 99
        finally:
            os._exit(code)
    _, status = os.waitpid(pid, 0)
    return os.WEXITSTATUS(status) if os.WIFEXITED(status) else -os.WTERMSIG(status)


def count_in_child(fn, kind):
    """Run fn in a child in counting mode; -> number of events (read back through a pipe)."""
    r, w = os.pipe()

    def child():
        os.close(r)
        if kind == "fs":
            Audit.install()
            Audit.mode, Audit.n = "count", 0
        else:
            Trace.mode, Trace.n, Trace.log = "count", 0, []
        try:
            fn()
        finally:
            n = Audit.n if kind == "fs" else Trace.n
            os.write(w, json.dumps({"n": n}).encode())
            os.close(w)
    st = forked(child)
    os.close(w)
    data = os.read(r, 65536)
    os.close(r)
    try:
        return json.loads(data.decode())["n"], st
    except Exception:
        return 0, st


def die_at(fn, kind, k):
    def child():
        if kind == "fs":
            Audit.install()
            Audit.mode, Audit.n, Audit.k = "die", 0, k
        else:
            Trace.mode, Trace.n, Trace.k = "die", 0, k
        fn()
    return forked(child)


# ---------------------------------------------------------------------------
# judging a database file

def schema_dump(path):
    c = sqlite3.connect(path)
    try:
        rows = c.execute("SELECT type, name, tbl_name, sql FROM sqlite_master ORDER BY type, name").fetchall()
        return [tuple(r) for r in rows]
    finally:
        c.close()


def all_rows(path, skip=("version",)):
    c = sqlite3.connect(path)
    try:
        out = {}
        for (t,) in c.execute("SELECT name FROM sqlite_master WHERE type='table' ORDER BY name").fetchall():
            if t.startswith("sqlite_"):
                continue
            out[t] = sorted((tuple(r) for r in c.execute("SELECT * FROM `%s`" % t).fetchall()), key=repr)
        return out
    finally:
        c.close()


def complete_db_problems(path, fresh_schema, target_version):
    """-> list of problems if `path` is not a complete database of the target version."""
    pr = []
    try:
        c = sqlite3.connect(path)
        try:
            ic = c.execute("PRAGMA integrity_check").fetchall()
            if ic != [("ok",)]:
                pr.append("integrity_check: %r" % (ic[:2],))
            v = c.execute("SELECT version FROM version").fetchall()
            if v != [(target_version,)]:
                pr.append("version rows %r, expected [(%d,)]" % (v, target_version))
        finally:
            c.close()
        if schema_dump(path) != fresh_schema:
            pr.append("schema differs from a freshly created database")
    except Exception as e:
        pr.append("cannot be read: %s: %s" % (type(e).__name__, e))
    return pr


def file_bytes(path):
    with open(path, "rb") as f:
        return f.read()


def listing(d):
    return sorted(os.listdir(d))


STRACE = shutil.which("strace") or "strace"
STRACE_SET = "pwrite64,write,sendfile,copy_file_range,fdatasync,fsync,unlink,unlinkat,rename,renameat,renameat2,ftruncate"


def strace_env():
    """No git on PATH: importing the package must not spawn versioneer's git children under strace."""
    e = dict(os.environ, PYTHONDONTWRITEBYTECODE="1", GIT_OPTIONAL_LOCKS="0", PATH="/nonexistent")
    return e


def strace_kill(pycode, point, cwd, env=None, timeout=60):
    """Run `python -c pycode` under strace with SIGKILL injected at the k-th invocation of one
    write-side syscall (strace counts `when=` per syscall, so crash points are (syscall, k) pairs).
    -> returncode (negative = killed)"""
    sc, k = point
    # (signal injection does not fire under --seccomp-bpf in strace 6.1, so the kill runs go without it)
    cmd = [STRACE, "-f", "-qq", "-o", "/dev/null", "-e", "trace=" + sc,
           "-e", "inject=%s:signal=KILL:when=%d" % (sc, k),
           "/venv/bin/python", "-W", "ignore", "-c", pycode]
    p = subprocess.run(cmd, cwd=cwd, env=env, stdout=subprocess.PIPE, stderr=subprocess.PIPE, timeout=timeout)
    return p.returncode


def strace_count(pycode, cwd, env=None, timeout=60):
    """-> (list of crash points [(syscall, k)] in order of occurrence, returncode)"""
    out = os.path.join(cwd, ".strace.out")
    cmd = [STRACE, "-f", "--seccomp-bpf", "-qq", "-o", out, "-e", "trace=" + STRACE_SET,
           "/venv/bin/python", "-W", "ignore", "-c", pycode]
    p = subprocess.run(cmd, cwd=cwd, env=env, stdout=subprocess.PIPE, stderr=subprocess.PIPE, timeout=timeout)
    points = []
    per = {}
    with open(out, "rb") as f:
        for line in f:
            if b"(" in line and b" = " in line:
                name = line.split(b"(")[0].split()[-1].decode()
                per[name] = per.get(name, 0) + 1
                points.append((name, per[name]))
    os.unlink(out)
    return points, p.returncode
