
-- note: anything which isn't an boolean, integer, or human-readable unicode
-- string, (i.e. binary strings) will be stored as hex

CREATE TABLE `version`
(
 `version` INTEGER -- contains one row, set to 1
);


-- Wormhole codes use a "nameplate": a short name which is only used to
-- reference a specific (long-named) mailbox. The codes only use numeric
-- nameplates, but the protocol and server allow can use arbitrary strings.
CREATE TABLE `nameplates`
(
 `id` INTEGER PRIMARY KEY AUTOINCREMENT,
 `app_id` VARCHAR,
 `name` VARCHAR,
 `mailbox_id` VARCHAR REFERENCES `mailboxes`(`id`),
 `request_id` VARCHAR -- from 'allocate' message, for future deduplication
);
CREATE INDEX `nameplates_idx` ON `nameplates` (`app_id`, `name`);
CREATE INDEX `nameplates_mailbox_idx` ON `nameplates` (`app_id`, `mailbox_id`);
CREATE INDEX `nameplates_request_idx` ON `nameplates` (`app_id`, `request_id`);

CREATE TABLE `nameplate_sides`
(
 `nameplates_id` REFERENCES `nameplates`(`id`),
 `claimed` BOOLEAN, -- True after claim(), False after release()
 `side` VARCHAR,
 `added` INTEGER -- time when this side first claimed the nameplate
);


-- Clients exchange messages through a "mailbox", which has a long (randomly
-- unique) identifier and a queue of messages.
-- `id` is randomly-generated and unique across all apps.
CREATE TABLE `mailboxes`
(
 `app_id` VARCHAR,
 `id` VARCHAR PRIMARY KEY,
 `updated` INTEGER, -- time of last activity, used for pruning
 `for_nameplate` BOOLEAN -- allocated for a nameplate, not standalone
);
CREATE INDEX `mailboxes_idx` ON `mailboxes` (`app_id`, `id`);

CREATE TABLE `mailbox_sides`
(
 `mailbox_id` REFERENCES `mailboxes`(`id`),
 `opened` BOOLEAN, -- True after open(), False after close()
 `side` VARCHAR,
 `added` INTEGER, -- time when this side first opened the mailbox
 `mood` VARCHAR
);

CREATE TABLE `messages`
(
 `app_id` VARCHAR,
 `mailbox_id` VARCHAR,
 `side` VARCHAR,
 `phase` VARCHAR, -- numeric or string
 `body` VARCHAR,
 `server_rx` INTEGER,
 `msg_id` VARCHAR
);
CREATE INDEX `messages_idx` ON `messages` (`app_id`, `mailbox_id`);
