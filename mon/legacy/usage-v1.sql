CREATE TABLE `version`
(
 `version` INTEGER -- contains one row
);

CREATE TABLE `current`
(
 `rebooted` INTEGER, -- seconds since epoch of most recent reboot
 `updated` INTEGER, -- when `current` was last updated
 `blur_time` INTEGER, -- `started` is rounded to this, or None
 `connections_websocket` INTEGER -- number of live clients via websocket
);

-- one row is created each time a nameplate is retired
CREATE TABLE `nameplates`
(
 `app_id` VARCHAR,
 `started` INTEGER, -- seconds since epoch, rounded to "blur time"
 `waiting_time` INTEGER, -- seconds from start to 2nd side appearing, or None
 `total_time` INTEGER, -- seconds from open to last close/prune
 `result` VARCHAR -- happy, lonely, pruney, crowded
 -- nameplate moods:
 --  "happy": two sides open and close
 --  "lonely": one side opens and closes (no response from 2nd side)
 --  "pruney": channels which get pruned for inactivity
 --  "crowded": three or more sides were involved
);
CREATE INDEX `nameplates_idx` ON `nameplates` (`app_id`, `started`);

-- one row is created each time a mailbox is retired
CREATE TABLE `mailboxes`
(
 `app_id` VARCHAR,
 `for_nameplate` BOOLEAN, -- allocated for a nameplate, not standalone
 `started` INTEGER, -- seconds since epoch, rounded to "blur time"
 `total_time` INTEGER, -- seconds from open to last close
 `waiting_time` INTEGER, -- seconds from start to 2nd side appearing, or None
 `result` VARCHAR -- happy, scary, lonely, errory, pruney
 -- rendezvous moods:
 --  "happy": both sides close with mood=happy
 --  "scary": any side closes with mood=scary (bad MAC, probably wrong pw)
 --  "lonely": any side closes with mood=lonely (no response from 2nd side)
 --  "errory": any side closes with mood=errory (other errors)
 --  "pruney": channels which get pruned for inactivity
 --  "crowded": three or more sides were involved
);
CREATE INDEX `mailboxes_idx` ON `mailboxes` (`app_id`, `started`);
CREATE INDEX `mailboxes_result_idx` ON `mailboxes` (`result`);
