"""C20: schema upgrade keeps every usage record and can be retried.

Generated version-1 usage databases are opened through the real create_or_upgrade_usage_db with the
upgrade interrupted at every enumerated point: process death (fork + os._exit) at each SQL statement
(sqlite trace callback) and each audited file-system call from opening the old file to the final
commit (including inside shutil.copy), SIGKILL by strace at each write-side system call of a real
subprocess, and exceptions (audit-hook OSError, authorizer denial inside the upgrade script).
Uninterrupted: schema equals a fresh v2 database, every old row intact, <path>-backup-v1 is
byte-identical to the old file.  Interrupted: no old row lost, and simply starting again succeeds
and ends in the uninterrupted result."""
import os, sys, random, sqlite3, shutil
from .common import *
from .. import dbfaults as F
from ..engine import new_workdir, rmtree, _SRC
from .c19 import db, fresh_schema, NPARTS

PYCODE = ("import sys; sys.path.insert(0, %r); from wormhole_mailbox_server import database; "
          "database.create_or_upgrade_usage_db(%r)")


def viol(acc, case, kind, detail):
    acc.add_violation({"property": "C20", "kind": "dbfault", "case": case,
                       "violation": {"props": ["C20"], "kind": kind, "detail": detail, "step": None}})


def make_v1(path, seed):
    r = random.Random(seed)
    schema = open(os.path.join(_SRC, "wormhole_mailbox_server", "db-schemas", "usage-v1.sql")).read()
    c = sqlite3.connect(path)
    c.executescript(schema)
    c.execute("INSERT INTO version (version) VALUES (1)")
    n = r.choice([0, 1, 3, 20, 200])
    vals = [None, 0, 1, -1, 2 ** 63 - 1, 1.5, 1e300, "", "x" * r.choice([1, 5000]), "ü\x00y", b"\x00\xff"]
    for i in range(n):
        c.execute("INSERT INTO nameplates (app_id, started, waiting_time, total_time, result) VALUES (?,?,?,?,?)",
                  (r.choice(["a", "ü", None]), r.choice(vals), r.choice(vals), r.choice(vals), r.choice(["happy", "pruney", None, "x" * 300])))
    for i in range(r.choice([0, 2, n])):
        c.execute("INSERT INTO mailboxes (app_id, for_nameplate, started, total_time, waiting_time, result) VALUES (?,?,?,?,?,?)",
                  (r.choice(["a", "b"]), r.choice([0, 1, None]), r.choice(vals), r.choice(vals), r.choice(vals), r.choice(["happy", "scary", None])))
    for i in range(r.choice([0, 1, 3])):
        c.execute("INSERT INTO current (rebooted, updated, blur_time, connections_websocket) VALUES (?,?,?,?)",
                  (r.choice(vals[:6]), i, r.choice([None, 60]), r.choice([0, 7, None])))
    c.commit()
    c.close()


def upgrader(database, path):
    return lambda: database.create_or_upgrade_usage_db(path)


def old_rows(path):
    rows = F.all_rows(path)
    return {t: rows.get(t, []) for t in ("nameplates", "mailboxes", "current")}


def judge_final(acc, database, path, orig_bytes, orig_rows, case, interrupted):
    """The state after a completed (possibly retried) upgrade."""
    fs = fresh_schema(database, "usage")
    pr = F.complete_db_problems(path, fs, 2)
    if pr:
        viol(acc, case, "upgraded database is not a complete v2 database", {"problems": pr})
        return
    now = old_rows(path)
    if now != orig_rows:
        lost = {t: len(orig_rows[t]) - len(now[t]) for t in orig_rows}
        viol(acc, case, "upgrade lost or changed usage records", {"row_count_change": lost})
        return
    bk = path + "-backup-v1"
    acc.ev["c20_backup_checked"] += 1
    if not os.path.exists(bk):
        viol(acc, case, "no backup of the old file next to the upgraded one", {"listing": F.listing(os.path.dirname(path))})
    elif F.file_bytes(bk) != orig_bytes:
        # after an interrupted attempt the retry copies the file again; it must still be the old content
        try:
            same_rows = old_rows(bk) == orig_rows and F.schema_dump(bk) == F.schema_dump_bytes(orig_bytes)
        except Exception as e:
            same_rows = False
        if not interrupted or not same_rows:
            viol(acc, case, "backup is not a byte-identical copy of the old file", {"interrupted": interrupted, "same_rows": same_rows})
        else:
            acc.dontcare["c20_backup_same_rows_not_same_bytes_after_retry"] += 1


def judge_interrupted(acc, database, d, path, orig_bytes, orig_rows, case, what):
    acc.ev["c20_crash_point"] += 1
    acc.ev["c20_" + what] += 1
    # no old row lost in the main file: read through plain sqlite3 (which performs recovery) on a COPY of the
    # files, so that the restart below meets exactly what the crash left (hot journal included)
    peek = new_workdir("c20p")
    try:
        for f in os.listdir(d):
            shutil.copy(os.path.join(d, f), os.path.join(peek, f))
        now = old_rows(os.path.join(peek, os.path.basename(path)))
    except Exception as e:
        viol(acc, case, "main file unreadable after an interrupted upgrade", {"exc": repr(e)})
        return
    finally:
        rmtree(peek)
    if now != orig_rows:
        viol(acc, case, "interrupted upgrade lost usage records", {"before": {t: len(v) for t, v in orig_rows.items()},
                                                                  "after": {t: len(v) for t, v in now.items()}})
        return
    try:
        c = upgrader(database, path)()
        c.close()
    except BaseException as e:
        viol(acc, case, "starting again after an interrupted upgrade fails",
             {"exc": "%s: %s" % (type(e).__name__, e), "listing": F.listing(d)})
        return
    judge_final(acc, database, path, orig_bytes, orig_rows, case, True)


def jobs(pid, tier, seed):
    out = []
    nin = 3 if tier == "quick" else 12
    for i in range(nin):
        for kind in ("die-stmt", "die-fs", "raise-fs", "raise-auth", "strace"):
            for part in range(NPARTS):
                out.append({"kind": kind, "input": seed * 1000 + i, "part": part, "stride": 1})
    n = 64 if tier == "quick" else 1500
    out += [{"kind": "plain", "input": seed * 1000003 + 100 + i} for i in range(n)]
    return out


def prepare(base, name, seed):
    d = os.path.join(base, name)
    os.mkdir(d)
    path = os.path.join(d, "usage.sqlite")
    make_v1(path, seed)
    return d, path


def run_job(pid, job, acc):
    database = db()
    F.schema_dump_bytes = schema_dump_bytes
    k = job["kind"]
    seed = job["input"]
    base = new_workdir("c20")
    F.Audit.root = base
    try:
        d0, p0 = prepare(base, "orig", seed)
        orig_bytes = F.file_bytes(p0)
        orig_rows = old_rows(p0)
        if k == "plain":
            acc.ev["c20_uninterrupted"] += 1
            try:
                upgrader(database, p0)().close()
            except BaseException as e:
                viol(acc, "plain:%d" % seed, "upgrade of a v1 usage database fails", {"exc": repr(e)})
                return
            judge_final(acc, database, p0, orig_bytes, orig_rows, "plain:%d" % seed, False)
            # and opening it once more changes nothing
            b1 = old_rows(p0)
            upgrader(database, p0)().close()
            if old_rows(p0) != b1:
                viol(acc, "plain:%d" % seed, "re-opening an upgraded database changed it", {})
            acc.cases += 1
            acc.distinct.add("plain:%d" % seed)
            if len(acc.samples) < 2:
                acc.samples.append({"case": "plain:%d" % seed, "rows": {t: len(v) for t, v in orig_rows.items()}, "old_file_bytes": len(orig_bytes)})
            return
        if k in ("die-stmt", "die-fs"):
            kind = "stmt" if k == "die-stmt" else "fs"
            dc, pc = prepare(base, "count", seed)
            n, st = F.count_in_child(upgrader(database, pc), kind)
            if job["part"] == 0:
                acc.extra["c20_events_%s" % k] += n
            if n < 3:
                acc.errors.append("too few %s events (%d)" % (kind, n))
                return
            for i in range(1, n + 1):
                if i % NPARTS != job["part"]:
                    continue
                d, p = prepare(base, "k%d" % i, seed)
                st = F.die_at(upgrader(database, p), kind, i)
                if st not in (77, 78):
                    acc.errors.append("child did not die at event %d (status %s)" % (i, st))
                    continue
                judge_interrupted(acc, database, d, p, orig_bytes, orig_rows, "%s:%d:%d" % (k, seed, i), k)
                acc.cases += 1
                acc.distinct.add("%s:%d:%d" % (k, seed, i))
        elif k == "raise-fs":
            F.Audit.install()
            dc, pc = prepare(base, "count", seed)
            F.Audit.mode, F.Audit.n = "count", 0
            upgrader(database, pc)().close()
            n = F.Audit.n
            F.Audit.mode = None
            for i in range(1, n + 1):
                if i % NPARTS != job["part"]:
                    continue
                d, p = prepare(base, "k%d" % i, seed)
                F.Audit.mode, F.Audit.n, F.Audit.k, F.Audit.fired = "raise", 0, i, None
                try:
                    upgrader(database, p)().close()
                except Exception:
                    pass
                finally:
                    F.Audit.mode = None
                if F.Audit.fired is None:
                    continue
                import gc; gc.collect()
                judge_interrupted(acc, database, d, p, orig_bytes, orig_rows, "%s:%d:%d:%s" % (k, seed, i, F.Audit.fired), k)
                acc.cases += 1
                acc.distinct.add("%s:%d:%d" % (k, seed, i))
        elif k == "raise-auth":
            F.TracedConnection.authorizer = F.Auth.cb
            try:
                dc, pc = prepare(base, "count", seed)
                F.Auth.mode, F.Auth.n = "count", 0
                upgrader(database, pc)().close()
                n = F.Auth.n
                F.Auth.mode = None
                for i in range(1, n + 1):
                    if i % NPARTS != job["part"]:
                        continue
                    d, p = prepare(base, "k%d" % i, seed)
                    F.Auth.mode, F.Auth.n, F.Auth.k, F.Auth.fired = "raise", 0, i, None
                    try:
                        upgrader(database, p)().close()
                    except Exception:
                        pass
                    finally:
                        F.Auth.mode = None
                    if F.Auth.fired is None:
                        continue
                    import gc; gc.collect()
                    F.TracedConnection.authorizer = None
                    judge_interrupted(acc, database, d, p, orig_bytes, orig_rows, "%s:%d:%d" % (k, seed, i), k)
                    F.TracedConnection.authorizer = F.Auth.cb
                    acc.cases += 1
                    acc.distinct.add("%s:%d:%d" % (k, seed, i))
            finally:
                F.TracedConnection.authorizer = None
        elif k == "strace":
            if not shutil.which("strace"):
                acc.errors.append("strace not available")
                return
            env = F.strace_env()
            dc, pc = prepare(base, "count", seed)
            points, rc = F.strace_count(PYCODE % (_SRC, pc), dc, env)
            if rc != 0 or len(points) < 5:
                acc.errors.append("strace counting run failed rc=%s n=%d" % (rc, len(points)))
                return
            if job["part"] == 0:
                acc.extra["c20_events_strace"] += len(points)
            ks = [i for i in range(len(points)) if i % NPARTS == job["part"]][::job["stride"]]
            for i in ks:
                d, p = prepare(base, "k%d" % i, seed)
                rc = F.strace_kill(PYCODE % (_SRC, p), points[i], d, env)
                if rc == 0:
                    acc.extra["c20_strace_not_killed"] += 1
                    continue
                judge_interrupted(acc, database, d, p, orig_bytes, orig_rows,
                                  "strace:%d:%d:%s#%d" % (seed, i, points[i][0], points[i][1]), "strace")
                acc.cases += 1
                acc.distinct.add("strace:%d:%d" % (seed, i))
    finally:
        F.Audit.mode = None
        rmtree(base)


def schema_dump_bytes(data):
    d = new_workdir("sd")
    try:
        p = os.path.join(d, "x.sqlite")
        open(p, "wb").write(data)
        return F.schema_dump(p)
    finally:
        rmtree(d)


def replay(pid, rep):
    acc = Acc(pid)
    parts = rep.get("case", "").split(":")
    if parts[0] == "plain":
        run_job(pid, {"kind": "plain", "input": int(parts[1])}, acc)
    else:
        for part in range(NPARTS):
            run_job(pid, {"kind": parts[0], "input": int(parts[1]), "part": part, "stride": 1}, acc)
    return acc
