"""Which module decides which property, at which level, with which coverage floors."""
import importlib

TRUST = ["CPython 3.12, sqlite3/SQLite 3.40 (atomic commit, recovery), Twisted TimerService/LoopingCall/Clock",
         "process death only (no power loss); event interleavings are sequences (single-threaded server)"]

H = "mon.checks.histcheck"

CHECKS = {
    "C01": dict(module=H, level="exploration",
                rule="Directed scenario families, then seeded random symbolic histories (bind/allocate/claim/release/open/add/close/"
                     "drop/time advance through the real timer/restart over 2 apps, 3 shared sides, tiny name and mailbox pools) "
                     "executed on the real service on real SQLite files; every open is judged by the replay-set oracle "
                     "(unique message bodies).",
                nontrivial_rule="a history counts if at least one open replayed a non-empty stored set; distinct by hash of the symbolic history.",
                floors={"quick": {"c01_replay": 200, "c01_replay_nonempty": 20}}),
    "C02": dict(module=H, level="exploration",
                rule="Same engine; every add is judged by the exactly-once fan-out oracle over subscription intervals of all live connections.",
                nontrivial_rule="a history counts if an add reached at least one subscribed connection; distinct by history hash.",
                floors={"quick": {"c02_fanout": 200, "c02_fanout_subscribed": 100}}),
    "C03": dict(module=H, level="exploration",
                rule="Same engine, 3 apps sharing 4 nameplate names; every claimed frame judged by the one-mailbox-per-incarnation oracle "
                     "(function + injectivity over the whole run, across restarts).",
                nontrivial_rule="a history counts if a live nameplate was claimed again or a new incarnation was created; distinct by history hash.",
                floors={"quick": {"c03_first_claim": 200, "c03_same_id": 50, "c03_fresh_id": 200}}),
    "C05": dict(module=H, level="exploration",
                rule="Same engine, 5 sides on 1-2 nameplates/mailboxes of one app; every touch of a third or later side judged by the admitted-sides oracle.",
                nontrivial_rule="a history counts if a third side touched a mailbox; distinct by history hash.",
                floors={"quick": {"c05_third_open": 10, "c05_third_claim": 10, "c05_third_close": 5}}),
    "C07": dict(module=H, level="exploration",
                rule="Same engine; per-step frame rule on nameplate rows plus lifetime oracle (held => stored and listed; last release => gone; reclaim refused).",
                nontrivial_rule="a history counts if a release left other holders or was the last one; distinct by history hash.",
                floors={"quick": {"c07_release_answered": 100, "c07_gone_after_last_release": 50, "c07_survives_others_hold": 5, "footprint": 1000}}),
    "C08": dict(module=H, level="exploration",
                rule="Same engine; every close judged by close-completes + lifetime oracle and the frame rule on mailbox rows.",
                nontrivial_rule="a history counts if a close left another opener or deleted the mailbox; distinct by history hash.",
                floors={"quick": {"c08_close_completes": 100, "c08_deleted_after_last_close": 50, "c08_survives_other_open": 5}}),
    "C12": dict(module=H, level="exploration",
                rule="Same engine, sweeps fired by the real TimerService on a virtual clock; every sweep judged by the must-survive oracle per mailbox.",
                nontrivial_rule="a history counts if a sweep met a mailbox that had to survive; distinct by history hash.",
                floors={"quick": {"c12_must_survive": 500, "c12_must_survive_subscribed": 50}}),
    "C15": dict(module=H, level="exploration",
                rule="Same engine with a usage database; every retirement judged by the conservation monitor and an independent classifier.",
                nontrivial_rule="a history counts if a retirement record was classified; distinct by history hash.",
                floors={"quick": {"c15_classified_mailbox": 100, "c15_classified_nameplate": 100, "c15_status_row": 100}}),
    "C16": dict(module=H, level="exploration",
                rule="Same engine with blur intervals 1,7,60,61,97,3600,86400 s; every usage row written judged by the blur post-condition.",
                nontrivial_rule="a history counts if a blurred row was written; distinct by history hash.",
                floors={"quick": {"c16_blur_bind": 100, "c16_blur_mailbox-close": 20, "c16_blur_nameplate-release": 20,
                                  "c16_blur_mailbox-pruned": 20, "c16_blur_nameplate-pruned": 10}}),
}

LEVEL_TEXT = ("Exploration by runtime monitoring: the real server code is executed on thousands of generated and directed "
              "histories and every relevant event is judged by a deterministic oracle over the recorded history. It decides the "
              "property on the executions produced (counts, states and samples in the evidence), not for all histories.")
for _pid, _c in CHECKS.items():
    _c.setdefault("assumptions", TRUST)
    _c.setdefault("level_text", LEVEL_TEXT)
    _c.setdefault("technique", "runtime monitoring: offline/online oracle over recorded histories of the real server")

NOT_YET = {}


def module_for(pid):
    return importlib.import_module(CHECKS[pid]["module"])
