"""Which module decides which property, at which level, with which coverage floors."""
import importlib

TRUST = ["CPython 3.12, sqlite3/SQLite 3.40 (atomic commit, recovery), Twisted TimerService/LoopingCall/Clock",
         "process death only (no power loss); event interleavings are sequences (single-threaded server)"]

H = "mon.checks.histcheck"
COMMON_TAIL = ' Random histories also contain: connections whose closing handshake has begun but whose loss the server has not seen yet, every way a connection can end (clean with or without a close code, abrupt, dropped by the server on a ping timeout), connections that never complete the handshake, binds with a malformed client_version (not judged themselves), and - in half of the histories - identifiers that differ only in Unicode normalisation form / letter case / blanks and non-printables, are empty, or carry formatting characters; every fourth history runs on older database files (schema snapshots, usage db still at version 1). A second, grammar-based generator (mon/lifegen.py) adds channel life cycles: one to three channels per app, sides returning on new connections while old connections linger, restarts followed by idle or failed binds, time steps around the sweep period and the expiration time, a suspended process (one late sweep), probes at the end.'

CHECKS = {
    "C01": dict(module=H, level="exploration",
                rule="Directed scenario families, then seeded random symbolic histories (bind/allocate/claim/release/open/add/close/"
                     "drop/time advance through the real timer/restart over 2 apps, 3 shared sides, tiny name and mailbox pools) "
                     "executed on the real service on real SQLite files; every open is judged by the replay-set oracle "
                     "(unique message bodies). Also: families after_cross_app_failure, scale (520 stored messages, 1 MiB bodies), deleted-under-subscriber; "
                     "deferred-work jobs (reactor.callLater on a private clock, run one command late or in bursts) judged by a duplicate / lost-add monitor; "
                     "fixture pairs (files with content written by the reference tree vs files the tree wrote itself)." + COMMON_TAIL,
                nontrivial_rule="a history counts if at least one open replayed a non-empty stored set; distinct by hash of the symbolic history.",
                floors={"quick": {"c01_replay": 200, "c01_replay_nonempty": 20}}),
    "C02": dict(module=H, level="exploration",
                rule="Same engine; every add is judged by the exactly-once fan-out oracle over subscription intervals of all live connections; "
                     "histories include connections whose websocket closing handshake has begun but whose loss the server has not seen yet "
                     "(sending to them raises, as in autobahn), and four real-process runs over TCP reproduce that window with SIGSTOP/SIGCONT; five more real-process runs "
                     "exercise a 1.5 MB frame, pipelined and dribbled frames, HTTP requests on the websocket port and an idle unbound connection. Families c02_fanout "
                     "(with ghost connections and malformed binds), c02_closing, scale, after_cross_app_failure, deleted-under-subscriber; deferred-work and fixture jobs as in C01." + COMMON_TAIL,
                nontrivial_rule="a history counts if an add reached at least one subscribed connection; distinct by history hash.",
                floors={"quick": {"c02_fanout": 200, "c02_fanout_subscribed": 100, "c02_fanout_next_to_closing_subscriber": 20,
                                  "wire_closing_case": 4, "wire_transport_case": 5}}),
    "C03": dict(module=H, level="exploration",
                rule="Same engine, 3 apps sharing 4 nameplate names; every claimed frame judged by the one-mailbox-per-incarnation oracle "
                     "(function + injectivity over the whole run, across restarts).",
                nontrivial_rule="a history counts if a live nameplate was claimed again or a new incarnation was created; distinct by history hash.",
                floors={"quick": {"c03_first_claim": 200, "c03_same_id": 50, "c03_fresh_id": 200}}),
    "C04": dict(module="mon.checks.c04", level="exploration", exhaustive=False,
                rule="Allocate-heavy random histories (explicit claims of numeric, zero-padded, space-padded, 4-digit and non-numeric names, releases, "
                     "closes, sweeps; listing allowed and disallowed), hole-punching scenarios at the 1-, 2- and 3-digit level and a real 999-claim fill; "
                     "every `allocated` frame judged at emission (free before the command per independent reader, shortest length, held by the allocating side, "
                     "no open transaction). In each reached state every outcome of the random choice is driven through the real _find_available_nameplate_id "
                     "(exhaustive over the choice set, per state).",
                nontrivial_rule="a history counts if an allocate was answered; distinct by history hash.",
                floors={"quick": {"c04_allocate": 1000, "c04_choice_outcome": 20000, "c04_choice_states": 1000, "c04_refill_exact": 2,
                                  "c04_long_allocations": 20, "c09_emit_allocated": 1000,
                                  "c04_only_free_name_after_retirement": 40}}),
    "C05": dict(module=H, level="exploration",
                rule="Same engine, 5 sides on 1-2 nameplates/mailboxes of one app; every touch of a third or later side judged by the admitted-sides oracle.",
                nontrivial_rule="a history counts if a third side touched a mailbox; distinct by history hash.",
                floors={"quick": {"c05_third_open": 10, "c05_third_claim": 10, "c05_third_close": 5}}),
    "C06": dict(module="mon.checks.c06", level="exploration",
                rule="Differential: random histories over 2-3 apps that use identical nameplate names, side strings, phases and message bodies (explicit "
                     "mailbox ids disjoint per app), with sweeps through the real timer and restarts; each is re-executed once per app with every connection "
                     "bound to another app removed, and that app's frames, channel rows (joined with their side rows) and usage rows are compared after "
                     "renaming generated mailbox ids by first appearance. Direct form online on the same histories and on directed families: no command of "
                     "one app changes a row owned by another.",
                nontrivial_rule="a pair counts if removing the other apps actually removed steps; distinct by hash of (history, app).",
                technique="runtime monitoring: differential (metamorphic) comparison of recorded executions + online row-ownership oracle",
                floors={"quick": {"c06_differential_pair": 500, "c06_pair_with_other_apps_removed": 400, "footprint": 10000}}),
    "C07": dict(module=H, level="exploration",
                rule="Same engine; per-step frame rule on nameplate rows plus lifetime oracle (held => stored and listed; last release => gone; reclaim refused).",
                nontrivial_rule="a history counts if a release left other holders or was the last one; distinct by history hash.",
                floors={"quick": {"c07_release_answered": 100, "c07_gone_after_last_release": 50, "c07_survives_others_hold": 5, "footprint": 1000}}),
    "C08": dict(module=H, level="exploration",
                rule="Same engine; every close judged by close-completes + lifetime oracle and the frame rule on mailbox rows.",
                nontrivial_rule="a history counts if a close left another opener or deleted the mailbox; distinct by history hash.",
                floors={"quick": {"c08_close_completes": 100, "c08_deleted_after_last_close": 50, "c08_survives_other_open": 5}}),
    "C09": dict(module="mon.checks.c09", level="fault_enumeration",
                rule="A crash point right after every outbound frame of directed and random histories (with and without usage db): at each emission "
                     "the hook asserts that no server db connection is inside a transaction and that an independent read-only connection already sees "
                     "what the frame acknowledges (allocated/claimed/released/closed/message); every 7th acknowledging frame the files and hot journals "
                     "are copied at that instant, re-opened with plain sqlite3 (real recovery) and judged by the same oracle; PRAGMA synchronous=FULL and "
                     "journal_mode=DELETE are read from the server's connections after every (re)start. "
                     "Wire/syscall tier (32 histories quick, 600 thorough): the unmodified service as a real process on the real disk, driven over TCP by a raw "
                     "WebSocket client under strace -f -yy; an offline checker replays the log: no TCP write while a journal file is live, database fdatasync "
                     "before every journal unlink, journal synced before the first database write; the frames the real client received must equal the "
                     "in-process recording (harness fidelity, a mismatch is inconclusive, never a violation).",
                nontrivial_rule="a history counts if an acknowledging frame was judged at emission; distinct by history hash.",
                level_text="Fault enumeration by runtime monitoring: one crash point per outbound frame of every executed history, decided by an oracle "
                           "running inside the send hook of the real server; sampled crash images confirm the reader-based verdicts on real file bytes.",
                budget={"quick": 180, "thorough": 1200},
                floors={"quick": {"c09_no_txn_at_frame": 60000, "c09_emit_message": 1000, "c09_emit_claimed": 1000, "c09_emit_released": 500,
                                  "c09_emit_closed": 500, "c09_emit_allocated": 200, "c09_crash_image_checked": 1000, "c09_pragmas": 2000,
                                  "c09_wire_history": 16, "c09_syscall_tcp_writes_checked": 2000, "c09_syscall_commits_checked": 500}}),
    "C13": dict(module="mon.checks.c13", level="exploration",
                rule="General random histories (3 apps, 4 sides, reopen-after-close, crowding, protocol errors, restarts) followed by all clients leaving and "
                     "expiry + 2 periods of virtual time through the real TimerService: per-sweep must-be-gone oracle, store-empty oracle, sweeps-per-lifetime "
                     "monitor; 1 in 5 histories with the first db access of sweeps 2, 3 and a later one failing (sqlite shim raising 'database is locked'), "
                     "1 in 25 with a second connection really holding BEGIN EXCLUSIVE across the timer instant, 1 in 25 running 50 further periods; 12 crash-image runs (every commit boundary of a two-app history restarted and run to quiescence: the store must end empty).",
                nontrivial_rule="a history counts if a sweep met an idle channel that had to be gone or the quiescence oracle ran; distinct by history hash.",
                floors={"quick": {"c13_must_be_gone": 2000, "c13_empty_at_quiescence": 1500, "c13_sweep_count": 1500,
                                  "c13_injected_sweep_failure": 300, "c13_real_lock_sweep_failure": 30, "sweep_failed_injected": 300}}),
    "C10": dict(module="mon.checks.c10", level="fault_enumeration",
                rule="Crash points = both sides of every real commit of either database inside every command and sweep of directed and random live histories "
                     "(with and without usage db); at each the database files and hot journals are copied from inside the commit hook (the bytes a kill -9 leaves). "
                     "Per distinct image (by logical content after SQLite recovery): server's own open routines + integrity_check, uniqueness/dangling checks, "
                     "'nobody returns' (service on the image, expiry + 2 periods through the real timer: no sweep error, store empty), and for in-flight "
                     "claim/release/open/close 'clients resume' (everyone rebinds, command re-sent, generated continuation) compared with the same continuation "
                     "from the files as they were when the command had completed; and on images strictly inside multi-commit commands 'others return' (the in-flight client stays away, other clients bind, allocate and run a generated continuation under the full tracker: no internal failure, dropped connection, left-open transaction, duplicate record or allocation of a stored name). A connection in autocommit mode makes every write statement a crash point.",
                nontrivial_rule="a history counts if it produced at least one crash image; distinct by history hash (distinct images counted separately).",
                level_text="Fault enumeration by runtime monitoring: every commit boundary of every executed command and sweep is a crash point; each distinct "
                           "on-disk state is restarted on the real code under both continuations.",
                technique="runtime crash injection: file images at every commit boundary of the real server, restarted and judged by oracles + differential continuation",
                budget={"quick": 180, "thorough": 1500},
                floors={"quick": {"c10_crash_point": 5000, "c10_distinct_image": 1500, "c10_nobody_returns": 1500, "c10_clients_resume": 300,
                                  "c10_resume_claim": 50, "c10_resume_release": 30, "c10_resume_open": 50, "c10_resume_close": 30,
                                  "c10_others_return": 150}}),
    "C11": dict(module="mon.checks.c11", level="exploration",
                rule="Differential at a cut: the prefix of a random history (2 apps, 3 sides, explicit sweeps as history events, clock jumps) is executed once, "
                     "all connections are dropped and the database files copied; the kept server object and a fresh makeService on the copy then both execute "
                     "the same continuation (reconnects with the same sides, sweeps before/between/after them); frames after the cut, final channel rows and "
                     "usage rows must be equal. Directed pairs cover restart->bind->sweep->open orders.",
                nontrivial_rule="a pair counts if frames were compared after the cut; distinct by hash of (prefix, suffix).",
                technique="runtime monitoring: differential comparison of a restarted and a non-restarted execution of the real server",
                floors={"quick": {"c11_pair": 800, "c11_frames_compared": 20000, "c11_pair_with_sweep_after_cut": 300}}),
    "C12": dict(module=H, level="exploration",
                rule="Same engine, sweeps fired by the real TimerService on a virtual clock; every sweep judged by the must-survive oracle per mailbox (subscribed now / a successful claim, allocate, open or add less than 660 s ago / last subscriber left less than 360 s ago), and by the sweep footprint (nothing but expired channels changes); the now/old the service passes to the sweep must be the true time and true time - 660 s.",
                nontrivial_rule="a history counts if a sweep met a mailbox that had to survive; distinct by history hash.",
                floors={"quick": {"c12_must_survive": 500, "c12_must_survive_subscribed": 50,
                                  "c12_must_survive_recently_subscribed": 50}}),
    "C14": dict(module="mon.checks.c14", level="exploration",
                rule="Differential: each random or directed history is executed once, then once more per chosen acknowledged claim/release/open/close with "
                     "that command re-sent at the same virtual instant on a fresh connection of the same app and side (nameplate/mailbox named explicitly, same "
                     "mood) which is then dropped at once or (every second duplicate) stays connected next to the original until the original closes, drops or the server restarts; odd seeds run on database files created from the schema snapshots in mon/legacy/; the duplicate's answer, all later frames of the original connections and the final channel rows "
                     "(timestamps included) are compared after renaming generated ids.",
                nontrivial_rule="a history counts if it had at least one eligible acknowledged command; distinct by history hash.",
                technique="runtime monitoring: differential comparison of executions with and without a duplicated command",
                floors={"quick": {"c14_duplicate_pair": 1500, "c14_dup_claim": 200, "c14_dup_release": 150, "c14_dup_open": 200, "c14_dup_close": 150,
                                  "c14_dup_kept_connected": 500}}),
    "C15": dict(module=H, level="exploration",
                rule="Same engine with a usage database; every retirement judged by the conservation monitor and an independent classifier; "
                     "plus the exhaustive product 1-4 sides x 8 moods per side x pruned x blur through the real _summarize_mailbox/_summarize_nameplate_usage.",
                nontrivial_rule="a history counts if a retirement record was classified; distinct by history hash.",
                floors={"quick": {"c15_classified_mailbox": 100, "c15_classified_nameplate": 100, "c15_status_row": 100,
                                  "c15_classifier_case": 18000}}),
    "C16": dict(module=H, level="exploration",
                rule="Same engine with blur intervals 1,7,60,61,97,3600,86400 s; every usage row written or changed judged by the blur post-condition; the blur interval is switched at 60 % of the restarts; 16 crash-image runs (every commit boundary of a two-app history restarted with blur and swept).",
                nontrivial_rule="a history counts if a blurred row was written; distinct by history hash.",
                floors={"quick": {"c16_blur_bind": 100, "c16_blur_mailbox-close": 20, "c16_blur_nameplate-release": 20,
                                  "c16_blur_mailbox-pruned": 20, "c16_blur_nameplate-pruned": 10,
                                  "c16_crash_image_swept": 200, "c16_blur_pruned_row": 200}}),
    "C17": dict(module=H, level="exploration",
                rule="Directed product protocol-state x command (13 states x 31 commands, each followed by a ping probe, a list and the same command again), "
                     "then random sequences with 35% malformed/out-of-order commands over hostile Unicode identifiers (NUL, combining marks, astral, quotes, SQL "
                     "fragments, empty, 10 kB); every frame and every step judged by the per-connection protocol oracle written from docs/server-protocol.md.",
                nontrivial_rule="a history counts if it contains a command classified as definitely rejected; distinct by history hash.",
                floors={"quick": {"rejected_cmd": 2000, "ack_first": 20000, "ping_pong": 500, "welcome": 1000, "error_has_orig": 2000,
                                  "wire_closing_case": 4, "wire_transport_case": 5}}),
    "C18": dict(module="mon.checks.c18", level="exploration",
                rule="Differential across configurations: each random history is executed under the base configuration (listing allowed, no usage db, no "
                     "blur) and under sampled (thorough: all 15) other combinations of {listing} x {usage db} x {blur none/1/61/3600}; every frame except "
                     "`nameplates`/`welcome` and every channel row must be identical. Separately every `list` answer of histories run under listing allowed "
                     "and disallowed is judged online: exactly the live nameplates of the caller's app, each once / always empty.",
                nontrivial_rule="a history counts if all its configuration pairs were compared; distinct by history hash.",
                technique="runtime monitoring: differential comparison across configurations + online oracle on list answers",
                floors={"quick": {"c18_config_pair": 1200, "list_answer": 3000}}),
    "C19": dict(module="mon.checks.c19", level="fault_enumeration", exhaustive=True,
                rule="First-time creation of both schemas interrupted at every enumerated point: process death (fork + os._exit) at each SQL statement seen by "
                     "sqlite's trace callback and at each audited file-system call; SIGKILL injected by strace at write-side system calls of a real subprocess "
                     "(quick: every 5th, thorough: all); exceptions at each audited file-system call (OSError), at each sqlite authorizer request inside the "
                     "schema script (denial) and at each source line of the creation functions (sys.monitoring failpoint). After each: target absent or complete "
                     "(integrity_check, version row, schema dump equal to a fresh database) and the next normal start succeeds. Generated pre-existing files "
                     "of 16 classes (half of them with neighbouring files that must stay byte-identical; create-only entry points on missing paths; current-version files that fail the foreign-key check) judged for keep / reject-and-byte-identical / DBAlreadyExists / DBDoesntExist.",
                nontrivial_rule="one case per (injection kind, schema, event index) that actually interrupted the creation, and per generated pre-existing file; all are non-trivial.",
                level_text="Fault enumeration: the event spaces (statements, audited fs calls, authorizer requests, source lines; syscalls in the thorough tier) "
                           "of the real creation code are enumerated completely and every point is injected once on the real code and real files.",
                technique="runtime fault injection on the real code: kill/exception at every enumerated event, oracle over the files left behind",
                budget={"quick": 180, "thorough": 1200},
                floors={"quick": {"c19_crash_point": 300, "c19_die-stmt": 30, "c19_die-fs": 10, "c19_raise-fs": 8, "c19_raise-auth": 40,
                                  "c19_raise-line": 30, "c19_strace": 20, "c19_existing_file": 150,
                                  "c19_sibling_file_checked": 200}}),
    "C20": dict(module="mon.checks.c20", level="fault_enumeration", exhaustive=True,
                rule="Generated version-1 usage databases (0-200 rows per table, NULLs, 2^63-1, floats, blobs, long and NUL-containing strings, several status rows) "
                     "upgraded through the real create_or_upgrade_usage_db; per input the upgrade is interrupted at every SQL statement (trace callback, fork + "
                     "os._exit), every audited file-system call (also inside shutil.copy), write-side system calls under strace SIGKILL (quick: every 3rd, thorough: "
                     "all), and by exceptions (OSError at fs calls, authorizer denial inside the upgrade script). Oracle: rows of the main file never lost; starting "
                     "again succeeds and yields schema == fresh v2, all old rows, backup with the old content (byte-identical when uninterrupted).",
                nontrivial_rule="one case per (injection kind, input, event index) that actually interrupted the upgrade, plus one per uninterrupted input; all non-trivial.",
                level_text="Fault enumeration: the event spaces of the real upgrade path are enumerated completely per input and every point is injected once on the real code and real files.",
                technique="runtime fault injection on the real code: kill/exception at every enumerated event of the upgrade, oracle over rows, schema and backup bytes",
                budget={"quick": 180, "thorough": 1200},
                floors={"quick": {"c20_crash_point": 150, "c20_die-stmt": 15, "c20_die-fs": 10, "c20_raise-fs": 8, "c20_raise-auth": 20,
                                  "c20_strace": 20, "c20_uninterrupted": 60, "c20_backup_checked": 150}}),
}

LEVEL_TEXT = ("Exploration by runtime monitoring: the real server code is executed on thousands of generated and directed "
              "histories and every relevant event is judged by a deterministic oracle over the recorded history. It decides the "
              "property on the executions produced (counts, states and samples in the evidence), not for all histories.")
for _pid, _c in CHECKS.items():
    _c.setdefault("assumptions", TRUST)
    _c.setdefault("level_text", LEVEL_TEXT)
    _c.setdefault("technique", "runtime monitoring: offline/online oracle over recorded histories of the real server")

NOT_YET = {}


def module_for(pid):
    return importlib.import_module(CHECKS[pid]["module"])
