"""C06: applications are isolated from each other.

Differential: history H over several apps using identical nameplates, side strings, phases and
bodies, versus H with every connection bound to another app removed (time advances, sweeps and
restarts kept): app B's frames and B's stored rows (channel and usage) must be equal after
canonicalisation.  Plus the direct form online (tracker footprint: no command of an app-A
connection changes a row owned by app B) on the same runs and on directed families."""
from .common import *
from .. import scenarios, diff
from ..gen import Gen

KEYS = ("footprint",)


def jobs(pid, tier, seed):
    out = []
    for name, params in scenarios.directed_for(pid, tier):
        out.append({"kind": "directed", "name": name, "params": params})
    out += [{"kind": "dirdiff", "i": i} for i in range(len(dirdiff_histories()))]
    from ..fixtures import SPECS
    out += [{"kind": "fixture", "name": nm, "seed": seed * 1000 + i} for nm in sorted(SPECS) for i in range(8 if tier == "quick" else 150)]
    n = 900 if tier == "quick" else 20000
    out += [{"kind": "diff", "seed": seed * 1000003 + i} for i in range(n)]
    out += [{"kind": "diff", "seed": seed * 1000003 + 5000000 + i, "life": 1} for i in range(2 * n)]
    return out


_dd = []


def dirdiff_histories():
    """Directed differential histories: the numeric name space is full across apps but not within one."""
    if _dd:
        return _dd
    from ..scenarios import HB
    for level in (1, 2):
        lo, hi = (1, 9) if level == 1 else (10, 99)
        for split in ((3, 5, 8) if level == 1 else (40,)):
            for own in (0, 2):
                b = HB()
                if level == 2:
                    for app in ("app", "app2", "äpp"):
                        for i in range(1, 10):
                            c = b.conn(app, "s1")
                            b.send(c, type="claim", nameplate=str(i))
                for i in range(lo, hi + 1):
                    app = "app" if i - lo < split else "app2"
                    c = b.conn(app, "s1")
                    b.send(c, type="claim", nameplate=str(i))
                for j in range(own):
                    c = b.conn("äpp", "s1")
                    b.send(c, type="claim", nameplate=str(lo + j))
                for j in range(3):
                    c = b.conn("äpp", "s2")
                    b.send(c, type="allocate")
                    b.send(c, type="list")
                    c2 = b.conn("app", "s2")
                    b.send(c2, type="allocate")
                _dd.append((b.h, ["app", "app2", "äpp"]))
    # many other apps come and go between a client's bind and its first command (whatever the server keeps per app
    # in memory must not be reclaimed while a connection of the app is bound)
    for nbulk in (300, 1100):
        b = HB()
        b1 = b.conn("app", "s1")
        for i in range(nbulk):
            c = b.conn("bulk-%d" % i, "s1")
            if i % 100 == 7:
                b.send(c, type="claim", nameplate="4")
        b.send(b1, type="claim", nameplate="4")
        b.send(b1, type="open", mailbox={"$claimed": b1})
        b2 = b.conn("app", "s2")
        b.send(b2, type="claim", nameplate="4")
        b.send(b2, type="open", mailbox={"$claimed": b2})
        b.add(b2, "pake")
        b.add(b1, "pake")
        b.send(b2, type="list")
        _dd.append((b.h, ["app"]))
    return _dd


def gen_hist(s, life=False):
    napps = 2 + (s % 3 == 0)
    if life:
        from ..lifegen import LifeGen
        # every second one names the same explicit mailbox id in both apps (on the unchanged tree that runs into the
        # known finding F8; what a tree does *instead* of failing is judged by the online oracles)
        g = LifeGen(s, napps=2, two_apps=True, body_prefix="same", cross_app_mailboxes=(s % 2 == 0), jumps=(s % 5 == 2))
        h = g.gen()
        k = 0
        for st in h:
            if st[0] == "send" and isinstance(st[2], dict) and st[2].get("type") == "add" and "body" in st[2]:
                k += 1
                st[2]["body"] = "same-%d" % (k % 3)
        return h, g.apps
    if s % 4 == 1:
        # dense profile: the numeric name space fills up across apps (allocation must not look at other apps)
        g = Gen(s, napps=napps, nsides=3, steps=120, p_illegal=0.02, names=[str(i) for i in range(1, 10)], body_prefix="same",
                restarts=False, long_advances=False, max_conns=12)
    else:
        g = Gen(s, napps=napps, nsides=3, steps=70, p_illegal=0.08, names=["1", "2", "7", "x"], body_prefix="same",
                empty_side=(s % 2 == 0))
    # identical bodies in all apps: the body counter is global, so make bodies collide on purpose
    h = g.gen()
    k = 0
    for st in h:
        if st[0] == "send" and isinstance(st[2], dict) and st[2].get("type") == "add" and "body" in st[2]:
            k += 1
            st[2]["body"] = "same-%d" % (k % 3)
    return h, g.apps


def observe(hist, cfg, seed, app, conns):
    ex = Exec(cfg, seed=seed, track=False)
    try:
        ex.start()
        rec = diff.record(ex, hist)
        can = diff.Canon()
        fr = diff.canon_frames(rec, can, conns=conns)
        # positions differ between H and H|B: index by position among kept steps
        keep = [x for x in fr if x["conn"] is None or x["conn"] in conns]
        for j, x in enumerate(keep):
            x["i"] = j
        store = diff.canon_store(rec.final, can, app)
        usage = diff.canon_usage(rec.ufinal, app)
        return {"frames": keep, "store": store, "usage": usage}, ex.world.counters
    finally:
        ex.close()


def run_job(pid, job, acc):
    if job["kind"] == "fixture":
        from .histcheck import run_fixture
        return run_fixture(pid, job, acc)
    if job["kind"] == "directed":
        for case, hist, cfg, opts in scenarios.build(pid, job["name"], job["params"]):
            run_hist(acc, hist, cfg, 0, case, nontrivial_keys=KEYS, keep_sample=(len(acc.samples) < 1), **opts)
        return
    if job["kind"] == "dirdiff":
        hist, apps = dirdiff_histories()[job["i"]]
        s = 0
        # (the bulk histories run without a usage db: per-step dumps of a growing client_versions table are quadratic)
        cfg = Config(usage=bool(job["i"] % 2) and len(hist) < 500, allow_list=bool(job["i"] % 3))
    else:
        s = job["seed"]
        hist, apps = gen_hist(s, life=bool(job.get("life")))
        cfg = cfg_for(s)
    # the direct form, online
    ex0 = run_hist(acc, hist, cfg, s, "direct:%d" % s, nontrivial_keys=KEYS, quiesce=False)
    if any(k["id"] == "F8" for k in ex0.tracker.known):
        # the known cross-app id failure is itself a difference between "with" and "without" the other app
        acc.ev["c06_differential_skipped_after_known_F8"] += 1
        acc.cases += 1
        return
    capps = diff.conn_apps(hist)
    for app in apps:
        conns = {c for c, (a, _) in capps.items() if a == app}
        unbound = {st[1] for st in hist if st[0] == "connect"} - set(capps)
        conns |= unbound
        if not conns:
            continue
        sub = diff.project(hist, app)
        full, cnt = observe(hist, cfg, s, app, conns)
        only, cnt2 = observe(sub, cfg, s, app, conns)
        acc.ev["c06_differential_pair"] += 1
        acc.steps += cnt["steps"] + cnt2["steps"]
        acc.frames += cnt["frames"] + cnt2["frames"]
        if len(sub) < len(hist):
            acc.ev["c06_pair_with_other_apps_removed"] += 1
            acc.distinct.add(hhash([hist, app]))
        d = diff.first_difference(full, only)
        if d:
            # self-check: the same history twice must give the same log, else inconclusive
            again, _ = observe(hist, cfg, s, app, conns)
            if diff.first_difference(full, again):
                acc.errors.append("self-check failed (uncontrolled nondeterminism) seed %d" % s)
                return
            acc.add_violation({"property": "C06", "kind": "diff", "cfg": cfg.to_json(), "seed": s, "case": "%s:%d:%s" % (job["kind"], job.get("seed", job.get("i", 0)), app),
                               "history": hist, "app": app,
                               "violation": {"props": ["C06"], "kind": "app's observations differ when other apps are removed",
                                             "detail": {"app": app, "first_difference": d}, "step": None}})
            return
    acc.cases += 1
    if len(acc.samples) < 2:
        acc.samples.append({"case": "diff:%d" % s, "apps": apps, "history_head": hist[:25]})


def replay(pid, rep):
    if rep.get("kind") == "fixture":
        acc = Acc(pid)
        run_job(pid, rep["job"], acc)
        return acc
    if rep.get("kind") == "diff":
        acc = Acc(pid)
        k, s = rep["case"].split(":")[0], int(rep["case"].split(":")[1])
        run_job(pid, {"kind": "diff", "seed": s} if k == "diff" else {"kind": "dirdiff", "i": s}, acc)
        return acc
    return replay_history(rep, pid)
