"""C19: database files are created atomically and never clobbered.

Crash points of first-time creation (both schemas): process death at every SQL statement (sqlite
trace callback, os._exit in a forked child), at every audited file-system call (audit hook), at
every write-side system call (strace-injected SIGKILL on a real subprocess); and the same points
with an exception instead of death (audit-hook OSError, sqlite authorizer denial inside the schema
script, sys.monitoring LINE failpoints in the creation functions).  Afterwards the target path is
absent or a complete database, and the next normal start succeeds.  Pre-existing files of every
class are either kept (valid) or rejected with an exception and left byte-identical."""
import os, sys, random, sqlite3, shutil, struct
from .common import *
from .. import dbfaults as F
from ..engine import new_workdir, rmtree, load_server_modules

SCHEMAS = {"channel": 1, "usage": 2}
NPARTS = 8


def db():
    return F.install_traced_shim()


def creator(database, schema, path):
    if schema == "channel":
        return lambda: database.create_or_upgrade_channel_db(path)
    return lambda: database.create_or_upgrade_usage_db(path)


_fresh = {}


def fresh_schema(database, schema):
    if schema not in _fresh:
        d = new_workdir("fresh")
        try:
            p = os.path.join(d, "f.sqlite")
            c = creator(database, schema, p)()
            c.close()
            _fresh[schema] = F.schema_dump(p)
        finally:
            rmtree(d)
    return _fresh[schema]


def judge(acc, database, schema, d, path, case, what):
    """After an interrupted creation: absent or complete; then the next start succeeds."""
    acc.ev["c19_crash_point"] += 1
    acc.ev["c19_" + what] += 1
    fs = fresh_schema(database, schema)
    state = "absent"
    if os.path.exists(path):
        state = "present"
        # judged on a copy: looking at the file with sqlite3 must not repair it (hot journal) before the restart below
        peek = new_workdir("c19p")
        try:
            for f in os.listdir(d):
                if os.path.isfile(os.path.join(d, f)):
                    shutil.copy(os.path.join(d, f), os.path.join(peek, f))
            pr = F.complete_db_problems(os.path.join(peek, os.path.basename(path)), fs, SCHEMAS[schema])
        finally:
            rmtree(peek)
        if pr:
            viol(acc, case, "interrupted creation left an incomplete database at the target path", {"problems": pr, "listing": F.listing(d)})
            return
    acc.extra["c19_state_" + state] += 1
    try:
        c = creator(database, schema, path)()
        c.close()
    except Exception as e:
        viol(acc, case, "start after an interrupted creation fails", {"exc": "%s: %s" % (type(e).__name__, e), "listing": F.listing(d)})
        return
    pr = F.complete_db_problems(path, fs, SCHEMAS[schema])
    if pr:
        viol(acc, case, "start after an interrupted creation does not yield a complete database", {"problems": pr})


def viol(acc, case, kind, detail):
    acc.add_violation({"property": "C19", "kind": "dbfault", "case": case,
                       "violation": {"props": ["C19"], "kind": kind, "detail": detail, "step": None}})


def jobs(pid, tier, seed):
    out = []
    for schema in SCHEMAS:
        for kind in ("die-stmt", "die-fs", "raise-fs", "raise-auth", "raise-line"):
            for part in range(NPARTS):
                out.append({"kind": kind, "schema": schema, "part": part})
        for part in range(NPARTS):
            out.append({"kind": "strace", "schema": schema, "part": part, "stride": 1 if tier == "thorough" else 2})
    n = 160 if tier == "quick" else 4000
    out += [{"kind": "existing", "seed": seed * 1000003 + i} for i in range(n)]
    # the whole start path of the service (Options -> makeService -> start -> stop) on directories that hold both
    # databases under related names, in every combination of present / absent
    out += [{"kind": "service", "scheme": sc, "chan": c, "usage": u, "seed": seed}
            for sc in range(len(NAME_SCHEMES)) for c in ("absent", "valid") for u in ("absent", "valid", "v1")]
    return out


NAME_SCHEMES = [("relay.sqlite", "usage.sqlite"), ("relay.sqlite", "relay.sqlite.usage"), ("wormhole.db.channels", "wormhole.db"),
                ("db", "db-usage"), ("mailbox.db", "mailbox.db.usage.sqlite"), ("x.sqlite.tmp", "x.sqlite"),
                # characters that mean something in URIs, globs, format strings and shells are just characters in a path
                ("data#2/relay.sqlite", "data#2/usage.sqlite"), ("q?x=1/r%41.sqlite", "q?x=1/u%41.sqlite"),
                ("sp ace/re[l]ay*.sqlite", "sp ace/us{a}ge'.sqlite")]


def _tree(base):
    out = []
    for d, _, fs in os.walk(base):
        for f in fs:
            out.append(os.path.relpath(os.path.join(d, f), base))
    return sorted(out)


def run_service_start(job, acc):
    """C19 through the service's own start path: whatever the two database paths are called, starting keeps every
    existing current-version database, upgrades an older usage database with all its rows, creates what is missing,
    and leaves every other file in the directory alone."""
    from ..engine import World
    database = db()
    r = random.Random(job["seed"] * 977 + hash((job["scheme"], job["chan"], job["usage"])) % 1000)
    cname, uname = NAME_SCHEMES[job["scheme"]]
    base = new_workdir("c19s")
    case = "service:%s" % sorted(job.items())
    try:
        cpath, upath = os.path.join(base, cname), os.path.join(base, uname)
        for pth in (cpath, upath):
            os.makedirs(os.path.dirname(pth), exist_ok=True)
        if job["chan"] == "valid":
            make_valid(database, "channel", cpath, r, nrows=6)
        if job["usage"] == "valid":
            make_valid(database, "usage", upath, r, nrows=6)
        elif job["usage"] == "v1":
            here = os.path.join(os.path.dirname(os.path.dirname(os.path.abspath(__file__))), "legacy", "usage-v1.sql")
            c = sqlite3.connect(upath)
            c.executescript(open(here).read())
            c.execute("INSERT INTO version (version) VALUES (1)")
            for i in range(5):
                c.execute("INSERT INTO nameplates (app_id, started, waiting_time, total_time, result) VALUES (?,?,?,?,?)", ("a", i, None, 7, "happy"))
                c.execute("INSERT INTO mailboxes (app_id, for_nameplate, started, total_time, waiting_time, result) VALUES (?,?,?,?,?,?)", ("a", 1, i, 2, None, "lonely"))
            c.commit()
            c.close()
        others = {}
        for f in (cname + ".bak", uname + ".bak", "unrelated.txt", cname + "-old", os.path.join(os.path.dirname(cname), "notes." + os.path.basename(cname))):
            fp = os.path.join(base, f)
            if not os.path.exists(fp):
                open(fp, "wb").write(b"other file " + f.encode())
                others[f] = F.file_bytes(fp)
        def rows(p):
            return {t: v for t, v in F.all_rows(p).items() if t not in ("version", "current")}
        rows_before = {p: rows(p) for p in (cpath, upath) if os.path.exists(p)}
        w = World(base, Config(usage=True))
        w.channel_path, w.usage_path = cpath, upath
        exc = None
        try:
            w.start(start_timer=False)      # (no expiry sweep: what is judged is what opening the files does to them)
            w.stop()
        except BaseException as e:
            exc = e
        finally:
            w.close()
        import gc; gc.collect()
        acc.ev["c19_service_start"] += 1
        acc.cases += 1
        acc.distinct.add(case)
        if exc is not None:
            return viol(acc, case, "the service does not start on valid / absent database files", {"exc": repr(exc)[:300], "listing": _tree(base)})
        expected = set(others) | {cname, uname} | ({uname + "-backup-v1"} if job["usage"] == "v1" else set())
        stray = [f for f in _tree(base) if f not in expected and not f.endswith(("-journal", "-wal", "-shm"))]
        if stray:
            return viol(acc, case, "starting the service created files other than the two databases", {"stray": stray[:5]})
        for f, data in others.items():
            acc.ev["c19_sibling_file_checked"] += 1
            fp = os.path.join(base, f)
            if not os.path.exists(fp) or F.file_bytes(fp) != data:
                return viol(acc, case, "starting the service deleted or modified another file of the directory", {"file": f, "exists": os.path.exists(fp)})
        for p, before in rows_before.items():
            if not os.path.exists(p):
                return viol(acc, case, "an existing database is gone after starting the service", {"file": os.path.basename(p)})
            after = rows(p)
            lost = [t for t, v in before.items() if sorted(v, key=repr) != sorted(after.get(t, []), key=repr)]
            if lost:
                return viol(acc, case, "starting the service changed the contents of an existing database",
                            {"file": os.path.basename(p), "tables": {t: [len(before[t]), len(after.get(t, []))] for t in lost}})
        for p, schema in ((cpath, "channel"), (upath, "usage")):
            pr = F.complete_db_problems(p, fresh_schema(database, schema), SCHEMAS[schema])
            if pr:
                return viol(acc, case, "database not complete after the service started", {"file": os.path.basename(p), "problems": pr})
    finally:
        rmtree(base)


def run_job(pid, job, acc):
    k = job["kind"]
    if k == "existing":
        return run_existing(job, acc)
    if k == "service":
        return run_service_start(job, acc)
    database = db()
    schema = job["schema"]
    base = new_workdir("c19")
    try:
        if k in ("die-stmt", "die-fs"):
            kind = "stmt" if k == "die-stmt" else "fs"
            d0 = os.path.join(base, "count"); os.mkdir(d0)
            F.Audit.root = base
            n, st = F.count_in_child(creator(database, schema, os.path.join(d0, "db.sqlite")), kind)
            acc.extra["c19_events_%s_%s" % (k, schema)] += n if job["part"] == 0 else 0
            if n < 5:
                acc.errors.append("too few %s events counted (%d)" % (kind, n))
                return
            for i in range(1, n + 2):
                if i % NPARTS != job["part"]:
                    continue
                d = os.path.join(base, "k%d" % i); os.mkdir(d)
                path = os.path.join(d, "db.sqlite")
                st = F.die_at(creator(database, schema, path), kind, i)
                if i <= n and st not in (77, 78):
                    acc.errors.append("child did not die at event %d (status %s)" % (i, st))
                    continue
                judge(acc, database, schema, d, path, "%s:%s:%d" % (k, schema, i), k)
                acc.distinct.add("%s:%s:%d" % (k, schema, i))
                acc.cases += 1
        elif k == "raise-fs":
            F.Audit.install()
            F.Audit.root = base
            d0 = os.path.join(base, "count"); os.mkdir(d0)
            F.Audit.mode, F.Audit.n = "count", 0
            creator(database, schema, os.path.join(d0, "db.sqlite"))().close()
            n = F.Audit.n
            F.Audit.mode = None
            for i in range(1, n + 1):
                if i % NPARTS != job["part"]:
                    continue
                d = os.path.join(base, "k%d" % i); os.mkdir(d)
                path = os.path.join(d, "db.sqlite")
                F.Audit.mode, F.Audit.n, F.Audit.k, F.Audit.fired = "raise", 0, i, None
                try:
                    creator(database, schema, path)().close()
                    raised = False
                except Exception as e:
                    raised = True
                finally:
                    F.Audit.mode = None
                if not raised and F.Audit.fired is None:
                    continue
                import gc; gc.collect()
                judge(acc, database, schema, d, path, "%s:%s:%d:%s" % (k, schema, i, F.Audit.fired), k)
                acc.distinct.add("%s:%s:%d" % (k, schema, i))
                acc.cases += 1
        elif k == "raise-auth":
            F.TracedConnection.authorizer = F.Auth.cb
            try:
                d0 = os.path.join(base, "count"); os.mkdir(d0)
                F.Auth.mode, F.Auth.n = "count", 0
                creator(database, schema, os.path.join(d0, "db.sqlite"))().close()
                n = F.Auth.n
                F.Auth.mode = None
                for i in range(1, n + 1):
                    if i % NPARTS != job["part"]:
                        continue
                    d = os.path.join(base, "k%d" % i); os.mkdir(d)
                    path = os.path.join(d, "db.sqlite")
                    F.Auth.mode, F.Auth.n, F.Auth.k, F.Auth.fired = "raise", 0, i, None
                    try:
                        creator(database, schema, path)().close()
                    except Exception:
                        pass
                    finally:
                        F.Auth.mode = None
                    if F.Auth.fired is None:
                        continue
                    import gc; gc.collect()
                    F.TracedConnection.authorizer = None
                    judge(acc, database, schema, d, path, "%s:%s:%d:%s" % (k, schema, i, F.Auth.fired), k)
                    F.TracedConnection.authorizer = F.Auth.cb
                    acc.distinct.add("%s:%s:%d" % (k, schema, i))
                    acc.cases += 1
            finally:
                F.TracedConnection.authorizer = None
        elif k == "raise-line":
            run_line_failpoints(job, acc, database, schema, base)
        elif k == "strace":
            run_strace(job, acc, database, schema, base)
    finally:
        F.Audit.mode = None
        rmtree(base)


class LineFail(Exception):
    pass


def run_line_failpoints(job, acc, database, schema, base):
    mon = sys.monitoring
    TOOL = 3
    try:
        mon.use_tool_id(TOOL, "verif-failpoint")
    except ValueError:
        pass
    funcs = [database._atomic_create_and_initialize_db, database._get_db, database._initialize_db_schema,
             database._open_db_connection, database._get_temporary_dbfile, database._initialize_db_connection]
    codes = [f.__code__ for f in funcs if hasattr(f, "__code__")]
    state = {"n": 0, "k": 0, "mode": None, "fired": None}

    def on_line(code, line):
        if state["mode"] is None:
            return
        state["n"] += 1
        if state["mode"] == "raise" and state["n"] == state["k"]:
            state["fired"] = (code.co_name, line)
            state["mode"] = None
            raise LineFail("injected at %s:%d" % (code.co_name, line))
    mon.register_callback(TOOL, mon.events.LINE, on_line)
    for c in codes:
        mon.set_local_events(TOOL, c, mon.events.LINE)
    try:
        d0 = os.path.join(base, "count"); os.mkdir(d0)
        state.update(mode="count", n=0)
        creator(database, schema, os.path.join(d0, "db.sqlite"))().close()
        n = state["n"]
        state["mode"] = None
        acc.extra["c19_events_raise-line_%s" % schema] += n if job["part"] == 0 else 0
        for i in range(1, n + 1):
            if i % NPARTS != job["part"]:
                continue
            d = os.path.join(base, "k%d" % i); os.mkdir(d)
            path = os.path.join(d, "db.sqlite")
            state.update(mode="raise", n=0, k=i, fired=None)
            try:
                creator(database, schema, path)().close()
            except LineFail:
                pass
            except Exception:
                pass
            finally:
                state["mode"] = None
            if state["fired"] is None:
                continue
            import gc; gc.collect()
            judge(acc, database, schema, d, path, "raise-line:%s:%d:%s" % (schema, i, state["fired"]), "raise-line")
            acc.distinct.add("raise-line:%s:%d" % (schema, i))
            acc.cases += 1
    finally:
        for c in codes:
            mon.set_local_events(TOOL, c, 0)
        mon.register_callback(TOOL, mon.events.LINE, None)
        try:
            mon.free_tool_id(TOOL)
        except Exception:
            pass


PYCODE = ("import sys; sys.path.insert(0, %r); from wormhole_mailbox_server import database; "
          "database.create_or_upgrade_%s_db(%r)")


def run_strace(job, acc, database, schema, base):
    if not shutil.which("strace"):
        acc.errors.append("strace not available")
        return
    from ..engine import _SRC
    env = F.strace_env()
    d0 = os.path.join(base, "count"); os.mkdir(d0)
    points, rc = F.strace_count(PYCODE % (_SRC, schema, os.path.join(d0, "db.sqlite")), d0, env)
    n = len(points)
    if rc != 0 or n < 10:
        acc.errors.append("strace counting run failed rc=%s n=%s" % (rc, n))
        return
    acc.extra["c19_events_strace_%s" % schema] += n if job["part"] == 0 else 0
    ks = [i for i in range(n) if i % NPARTS == job["part"]]
    ks = ks[::job["stride"]]
    for i in ks:
        d = os.path.join(base, "k%d" % i); os.mkdir(d)
        path = os.path.join(d, "db.sqlite")
        rc = F.strace_kill(PYCODE % (_SRC, schema, path), points[i], d, env)
        if rc == 0:
            acc.extra["c19_strace_not_killed"] += 1
            continue
        judge(acc, database, schema, d, path, "strace:%s:%d:%s#%d" % (schema, i, points[i][0], points[i][1]), "strace")
        acc.distinct.add("strace:%s:%d" % (schema, i))
        acc.cases += 1


# ---------------------------------------------------------------------------
# pre-existing files

def make_valid(database, schema, path, r, version=None, nrows=None):
    c = creator(database, schema, path)()
    n = r.randrange(0, 40) if nrows is None else nrows
    if schema == "channel":
        for i in range(n):
            mid = "mb%d" % i
            c.execute("INSERT INTO mailboxes (app_id, id, updated, for_nameplate) VALUES (?,?,?,?)", ("a%d" % (i % 3), mid, r.random() * 1e9, i % 2))
            c.execute("INSERT INTO mailbox_sides (mailbox_id, opened, side, added, mood) VALUES (?,?,?,?,?)", (mid, 1, "s\x00ü", i, None))
            c.execute("INSERT INTO messages (app_id, mailbox_id, side, phase, body, server_rx, msg_id) VALUES (?,?,?,?,?,?,?)",
                      ("a", mid, "s", "p", "x" * r.randrange(0, 3000), 1.5, None))
            if i % 2:
                np = c.execute("INSERT INTO nameplates (app_id, name, mailbox_id) VALUES (?,?,?)", ("a", str(i), mid)).lastrowid
                c.execute("INSERT INTO nameplate_sides (nameplates_id, claimed, side, added) VALUES (?,?,?,?)", (np, 1, "s", 2 ** 62))
    else:
        for i in range(n):
            c.execute("INSERT INTO nameplates (app_id, started, waiting_time, total_time, result) VALUES (?,?,?,?,?)", ("a", i, None, 2 ** 63 - 1, "happy"))
            c.execute("INSERT INTO mailboxes (app_id, for_nameplate, started, total_time, waiting_time, result) VALUES (?,?,?,?,?,?)", ("ü", 1, i, 1.5, None, "x" * 500))
            c.execute("INSERT INTO client_versions (app_id, side, connect_time, implementation, version) VALUES (?,?,?,?,?)", ("a", "s", i, None, "1"))
        c.execute("INSERT INTO current (rebooted, updated, blur_time, connections_websocket) VALUES (1,2,NULL,3)")
    if version is not None:
        c.execute("DELETE FROM version")
        if version != "none":
            for v in (version if isinstance(version, list) else [version]):
                c.execute("INSERT INTO version (version) VALUES (?)", (v,))
    c.commit()
    c.close()


def run_existing(job, acc):
    database = db()
    s = job["seed"]
    r = random.Random(s)
    schema = r.choice(list(SCHEMAS))
    target = SCHEMAS[schema]
    classes = ["valid", "empty", "random-bytes", "text", "truncated", "newer", "no-version-row", "no-version-table",
               "older-without-upgrader", "create-only-on-existing", "open-only-missing", "open-only-existing", "magic-then-junk",
               "create-next-to-siblings", "create-only-on-missing", "fk-violation"]
    cls = classes[s % len(classes)]
    base = new_workdir("c19e")
    case = "existing:%s:%s:%d" % (cls, schema, s)
    try:
        path = os.path.join(base, "db.sqlite")
        opener = creator(database, schema, path)
        expect = "reject"
        if cls == "valid":
            make_valid(database, schema, path, r)
            expect = "keep"
        elif cls == "empty":
            open(path, "wb").close()
        elif cls == "random-bytes":
            open(path, "wb").write(bytes(r.randrange(256) for _ in range(r.choice([1, 100, 4096, 10000]))))
        elif cls == "text":
            open(path, "w").write("this is not a database\n" * r.randrange(1, 50))
        elif cls == "magic-then-junk":
            open(path, "wb").write(b"SQLite format 3\x00" + bytes(r.randrange(256) for _ in range(4096)))
        elif cls == "truncated":
            make_valid(database, schema, path, r, nrows=30)
            data = F.file_bytes(path)
            cut = r.choice([1, 16, 100, 1024, 4096, len(data) // 2, len(data) - 1])
            open(path, "wb").write(data[:cut])
            expect = "reject-or-accept"
        elif cls == "newer":
            make_valid(database, schema, path, r, version=target + r.choice([1, 2, 100]))
        elif cls == "no-version-row":
            make_valid(database, schema, path, r, version="none")
        elif cls == "no-version-table":
            make_valid(database, schema, path, r)
            c = sqlite3.connect(path); c.execute("DROP TABLE version"); c.commit(); c.close()
        elif cls == "older-without-upgrader":
            make_valid(database, schema, path, r, version=(0 if schema == "channel" else r.choice([0, -1])))
            expect = "reject-backup-allowed"
        elif cls == "create-only-on-existing":
            if r.random() < 0.5:
                make_valid(database, schema, path, r)
            else:
                open(path, "wb").write(b"anything")
            opener = (lambda: database.create_channel_db(path)) if schema == "channel" else (lambda: database.create_usage_db(path))
            expect = "DBAlreadyExists"
        elif cls == "open-only-missing":
            opener = lambda: database.open_existing_db(path)
            expect = "DBDoesntExist"
        elif cls == "open-only-existing":
            make_valid(database, schema, path, r)
            opener = lambda: database.open_existing_db(path)
            expect = "keep"
        elif cls == "create-next-to-siblings":
            expect = "create"
        elif cls == "create-only-on-missing":
            # the create-only entry points produce the same complete, correctly versioned database
            opener = (lambda: database.create_channel_db(path)) if schema == "channel" else (lambda: database.create_usage_db(path))
            expect = "create"
        elif cls == "fk-violation":
            # a current-version database that fails the start-up integrity check (a side row without its
            # mailbox / nameplate) is refused and left exactly as it is
            make_valid(database, schema if schema == "channel" else "channel", path, r, nrows=6)
            schema = "channel"
            target = SCHEMAS["channel"]
            opener = creator(database, "channel", path)
            c = sqlite3.connect(path)
            k = r.randrange(3)
            if k == 0:
                c.execute("INSERT INTO mailbox_sides (mailbox_id, opened, side, added) VALUES ('no-such-mailbox', 1, 's', 1)")
            elif k == 1:
                c.execute("INSERT INTO nameplate_sides (nameplates_id, claimed, side, added) VALUES (987654, 1, 's', 1)")
            else:
                c.execute("INSERT INTO nameplates (app_id, name, mailbox_id) VALUES ('a', '77', 'no-such-mailbox')")
            c.commit()
            c.close()
            if r.random() < 0.5:
                opener = lambda: database.open_existing_db(path)
            expect = "reject"
        # other files of the same installation live next to the database (e.g. --usage-db relay.sqlite.usage,
        # backups, unrelated files): whatever happens to `path`, they are never touched
        siblings = {}
        if s % 2 == 0 or cls == "create-next-to-siblings":
            sib_schema = "usage" if schema == "channel" else "channel"
            make_valid(database, sib_schema, path + "." + sib_schema, r, nrows=5)
            open(path + ".bak", "wb").write(b"backup bytes %d" % s)
            open(os.path.join(base, "unrelated.txt"), "wb").write(b"x" * 100)
            open(path + "-old", "wb").write(b"SQLite format 3\x00 not really")
            for f in os.listdir(base):
                if os.path.join(base, f) != path:
                    siblings[f] = F.file_bytes(os.path.join(base, f))
        before_listing = F.listing(base)
        before = F.file_bytes(path) if os.path.exists(path) else None
        before_rows = None
        if expect == "keep":
            before_rows = F.all_rows(path, skip=())
        exc = None
        try:
            c = opener()
            c.close()
        except BaseException as e:
            exc = e
        import gc; gc.collect()
        acc.ev["c19_existing_file"] += 1
        acc.ev["c19_existing_" + cls] += 1
        after = F.file_bytes(path) if os.path.exists(path) else None
        after_listing = F.listing(base)
        for f, data in siblings.items():
            acc.ev["c19_sibling_file_checked"] += 1
            fp = os.path.join(base, f)
            if not os.path.exists(fp) or F.file_bytes(fp) != data:
                viol(acc, case, "a neighbouring file was deleted or modified", {"file": f, "exists": os.path.exists(fp), "class": cls})
                break
        if expect == "create":
            if exc is not None:
                viol(acc, case, "creation next to other files fails", {"exc": repr(exc)})
            else:
                pr = F.complete_db_problems(path, fresh_schema(database, schema), target)
                if pr:
                    viol(acc, case, "database created next to other files is incomplete", {"problems": pr})
        elif expect == "keep":
            if exc is not None:
                viol(acc, case, "valid current-version database rejected", {"exc": repr(exc)})
            elif F.all_rows(path, skip=()) != before_rows:
                viol(acc, case, "opening a valid database changed its contents", {})
            elif after_listing != before_listing:
                viol(acc, case, "opening a valid database created files", {"listing": after_listing})
        elif expect in ("reject", "reject-backup-allowed"):
            if exc is None:
                viol(acc, case, "file that must be rejected was accepted", {"class": cls})
            elif before != after:
                viol(acc, case, "rejected file was modified", {"class": cls, "len_before": len(before), "len_after": None if after is None else len(after)})
            else:
                extra = set(after_listing) - set(before_listing)
                allowed = {f for f in extra if expect == "reject-backup-allowed" and "-backup-v" in f}
                # SQLite's own side files of the path under test (a junk header can claim WAL mode) are not a
                # clobbered database; the statement only demands that the rejected file itself is unchanged
                side = {f for f in extra if f in (os.path.basename(path) + "-wal", os.path.basename(path) + "-shm",
                                                  os.path.basename(path) + "-journal")}
                if side:
                    acc.dontcare["c19_sqlite_side_files_next_to_rejected_file"] += 1
                allowed |= side
                if extra - allowed:
                    viol(acc, case, "rejecting a file created other files", {"extra": sorted(extra - allowed)})
        elif expect == "reject-or-accept":
            if exc is not None and before != after:
                viol(acc, case, "rejected (truncated) file was modified", {})
            acc.dontcare["c19_truncated_" + ("rejected" if exc is not None else "accepted")] += 1
        elif expect == "DBAlreadyExists":
            if not isinstance(exc, database.DBAlreadyExists):
                viol(acc, case, "create-only entry point did not refuse an existing file", {"exc": repr(exc)})
            elif before != after or after_listing != before_listing:
                viol(acc, case, "create-only entry point touched an existing file", {})
        elif expect == "DBDoesntExist":
            if not isinstance(exc, database.DBDoesntExist):
                viol(acc, case, "open-only entry point did not refuse a missing file", {"exc": repr(exc)})
            elif after_listing != before_listing:
                viol(acc, case, "open-only entry point created files", {"listing": after_listing})
        acc.cases += 1
        acc.distinct.add(case)
        if len(acc.samples) < 3:
            acc.samples.append({"case": case, "outcome": repr(exc)[:200] if exc else "accepted", "bytes_unchanged": before == after})
    finally:
        rmtree(base)


def replay(pid, rep):
    acc = Acc(pid)
    case = rep.get("case", "")
    parts = case.split(":")
    if parts[0] == "existing":
        run_existing({"seed": int(parts[3])}, acc)
    else:
        for part in range(NPARTS):
            run_job(pid, {"kind": parts[0], "schema": parts[1], "part": part, "stride": 1}, acc)
    return acc
