"""Shared plumbing of the checks: accumulators, history jobs, replay records."""
import json, os, hashlib, time, traceback
from collections import Counter
from ..engine import Config, T0, Inconclusive, REPO
from ..run import Exec
from ..gen import generate

VERIF = os.path.dirname(os.path.dirname(os.path.dirname(os.path.abspath(__file__))))

CONFIGS = [
    Config(usage=True, blur=None, allow_list=True),
    Config(usage=False, blur=None, allow_list=True),
    Config(usage=True, blur=60, allow_list=False),
    Config(usage=True, blur=7, allow_list=True, motd="hello", advertise="1.2.3"),
    Config(usage=False, blur=3600, allow_list=False, signal_error="go away"),
    Config(usage=True, blur=61, allow_list=True),
    Config(usage=True, blur=0, allow_list=True),        # --blur-usage=0 is "no blurring", not an interval
    Config(usage=True, blur=None, allow_list=True, log_fd=True),
]


def hhash(obj):
    return hashlib.sha256(json.dumps(obj, sort_keys=True, default=str).encode("utf-8")).hexdigest()[:16]


class Acc(object):
    """What one worker observed."""

    def __init__(self, prop):
        self.prop = prop
        self.ev = Counter()
        self.dontcare = Counter()
        self.ambiguous = Counter()
        self.other = Counter()          # violations attributed only to other properties (ignored here)
        self.violations = []            # replay records for this property
        self.nviol = 0
        self.known = []                 # known-finding events
        self.cases = 0
        self.distinct = set()           # hashes of distinct non-trivial cases
        self.shapes = set()
        self.pstates = set()
        self.samples = []
        self.steps = 0
        self.frames = 0
        self.commits = 0
        self.skipped = 0
        self.errors = []                # harness problems -> inconclusive
        self.extra = Counter()

    def absorb_tracker(self, tr, world, case_id, replay_base, nontrivial_keys=()):
        self.ev.update(tr.ev)
        self.dontcare.update(tr.dontcare)
        self.ambiguous.update(tr.ambiguous)
        self.steps += world.counters["steps"]
        self.frames += world.counters["frames"]
        self.commits += world.counters["commits"]
        for s in tr.shapes:
            self.shapes.add(hash(s))
        for s in tr.pstates:
            self.pstates.add(s)
        mine = [v for v in tr.violations if self.prop in v["props"]]
        for v in tr.violations:
            if self.prop not in v["props"]:
                for p in v["props"]:
                    self.other[p] += 1
        for v in mine[:1]:
            self.add_violation(dict(replay_base, violation=v, log=_log_around(world, v.get("step"))))
        self.nviol += max(0, len(mine) - 1)
        for k in tr.known:
            if self.prop in k["props"]:
                rec = dict(k)
                rec["replay"] = dict(replay_base, log=_log_around(world, k.get("step")))
                self.known.append(rec)
        if any(tr.ev.get(k, 0) > 0 for k in nontrivial_keys) or not nontrivial_keys:
            self.distinct.add(case_id)

    def add_violation(self, rec):
        self.nviol += 1
        if len(self.violations) < 5:
            self.violations.append(rec)

    def to_json(self):
        return {"prop": self.prop, "ev": dict(self.ev), "dontcare": dict(self.dontcare),
                "ambiguous": dict(self.ambiguous), "other": dict(self.other),
                "violations": self.violations, "nviol": self.nviol, "known": self.known[:20],
                "nknown": len(self.known), "cases": self.cases, "distinct": sorted(self.distinct),
                "shapes": sorted(self.shapes), "pstates": [list(p) for p in self.pstates],
                "samples": self.samples[:3], "steps": self.steps, "frames": self.frames,
                "commits": self.commits, "skipped": self.skipped, "errors": self.errors[:5],
                "extra": dict(self.extra)}


def _log_around(world, i, before=25):
    steps = world.steps
    if i is None:
        sel = steps[-before:]
    else:
        sel = steps[max(0, i - before):i + 1]
    return [s.brief() for s in sel]


def cfg_for(seed, configs=CONFIGS):
    return configs[seed % len(configs)]


def run_hist(acc, hist, cfg, seed, case, nontrivial_keys=(), quiesce=True, timer=True, keep_sample=False,
             post=None, pre=None, stop_on_violation=True, legacy=None):
    """Execute one symbolic history under the tracker and absorb what was observed."""
    if legacy is None:
        # every fourth random history starts on database files created from the schema snapshots in mon/legacy/
        legacy = isinstance(case, str) and not case.startswith("c") and seed % 4 == 3
    ex = Exec(cfg, seed=seed, timer=timer, legacy=legacy)
    try:
        if pre is not None:
            pre(ex)
        ex.run(hist, stop_on_violation=stop_on_violation, stop_prop=acc.prop)
        mine = [v for v in ex.tracker.violations if acc.prop in v["props"]]
        if quiesce and not mine and not ex.halted():
            ex.quiesce()
        if post is not None:
            post(ex)
        base = {"property": acc.prop, "kind": "history", "cfg": cfg.to_json(), "seed": seed,
                "history": hist, "case": case, "timer": timer, "quiesce": quiesce, "legacy": legacy}
        if legacy:
            acc.extra["histories_on_legacy_schema_files"] += 1
        acc.cases += 1
        acc.absorb_tracker(ex.tracker, ex.world, hhash(hist), base, nontrivial_keys)
        if keep_sample and len(acc.samples) < 3:
            acc.samples.append({"case": case, "cfg": cfg.to_json(), "history": hist[:40],
                                "observed_tail": ex.log(last=6)})
        return ex
    finally:
        ex.close()


def replay_history(rep, prop):
    cfg = Config.from_json(rep["cfg"])
    acc = Acc(prop)
    run_hist(acc, rep["history"], cfg, rep["seed"], rep.get("case", "replay"),
             quiesce=rep.get("quiesce", True), timer=rep.get("timer", True), legacy=rep.get("legacy", False))
    return acc
