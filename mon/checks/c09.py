"""C09: a response is sent only after its effects are committed.

Hook at every frame emission (tracker.on_frame): no server connection is inside a transaction; the
independent reader already sees what the frame acknowledges.  On a sample of acknowledging frames
the database files (and hot journals) are copied at that instant - the bytes a kill -9 would leave -
re-opened with plain sqlite3 (running SQLite's recovery) and judged by the same effect oracle.
PRAGMA synchronous / journal_mode of the server's connections are read after every (re)start."""
import shutil, sqlite3, os
from .common import *
from .. import scenarios
from ..engine import new_workdir, rmtree

GEN = dict(napps=2, nsides=3, steps=70, p_illegal=0.1)
KEYS = ("c09_emit_message", "c09_emit_claimed", "c09_emit_closed", "c09_emit_released")
ACKS = ("allocated", "claimed", "released", "closed", "message")


class ImageSampler(object):
    def __init__(self, acc, every):
        self.acc = acc
        self.every = every
        self.n = 0

    def __call__(self, world, conn, frame):
        if frame.get("type") not in ACKS:
            return
        self.n += 1
        if self.n % self.every:
            return
        tr = world.monitors[0]
        st = world.cur
        if st is None or st.kind != "cmd":
            return
        img = new_workdir("img")
        try:
            for base in (world.channel_path, world.usage_path):
                for suf in ("", "-journal"):
                    if os.path.exists(base + suf):
                        shutil.copy(base + suf, os.path.join(img, os.path.basename(base) + suf))
            c = sqlite3.connect(os.path.join(img, "channel.sqlite"))
            saved = world.reader
            nv = len(tr.violations)
            try:
                world.reader = c
                tr._effects_at_emission(world, st, conn.name, frame)
            finally:
                world.reader = saved
                c.close()
            self.acc.ev["c09_crash_image_checked"] += 1
            if len(tr.violations) > nv:
                tr.violations[-1]["detail"]["in_crash_image"] = True
        finally:
            rmtree(img)


WIRE_GEN = dict(napps=2, nsides=3, steps=60, use_time=False, restarts=False, names=["x", "y", "ü", "007", " 7"], p_illegal=0.1,
                bad_client_version=False, closings=False)     # (and the wire runner has no half-closed state) a handler failure drops the TCP connection with its ack unflushed: nothing to compare


def run_wire_job(job, acc):
    """Real process, real disk, real TCP, under strace: syscall-order rules (C09) and harness fidelity."""
    import shutil as _sh, tempfile
    from .. import wire, diff
    if not _sh.which("strace"):
        acc.errors.append("strace not available")
        return
    s = job["seed"]
    cfg = cfg_for(s)
    hist = generate(s, **WIRE_GEN)
    wd = tempfile.mkdtemp(prefix="verif-wire-", dir="/tmp")     # the real disk on purpose (fdatasync is real there)
    log = os.path.join(wd, "strace.log")
    try:
        srv = wire.WireServer(wd, cfg, strace_log=log, seed=s)
        try:
            out = wire.run_wire(hist, srv)
        finally:
            srv.stop()
        problems, stats = wire.check_strace_log(log, wd)
        acc.ev["c09_wire_history"] += 1
        acc.ev["c09_syscall_tcp_writes_checked"] += stats["tcp_writes"]
        acc.ev["c09_syscall_commits_checked"] += stats["commits"]
        acc.extra["c09_syscall_db_syncs"] += stats["db_syncs"]
        acc.extra["c09_syscall_journal_syncs"] += stats["journal_syncs"]
        if stats["commits"] == 0 or stats["tcp_writes"] == 0:
            acc.errors.append("strace log shows no commits / no TCP writes (wire:%d)" % s)
        if problems:
            acc.add_violation({"property": "C09", "kind": "wire", "case": "wire:%d" % s, "cfg": cfg.to_json(), "seed": s, "history": hist,
                               "violation": {"props": ["C09"], "kind": "syscall order of the real server process violates commit-before-send / sync-before-commit",
                                             "detail": {"problems": problems[:4], "stats": stats}, "step": None}})
        # fidelity: the in-process recording must equal what a real client received
        ex = Exec(cfg, seed=s, track=False)
        try:
            ex.start()
            rec = diff.record(ex, hist)
        finally:
            ex.close()

        def canon_run(steps):
            can = diff.Canon()
            nn = [0]
            res = []
            for fr in steps:
                for c in sorted(fr):
                    for f in fr[c]:
                        if f.get("type") == "claimed":
                            can.learn(f.get("mailbox"))
                res.append({c: can.apply(fr[c]) for c in sorted(fr)})
            return res
        inproc = []
        for r in rec.steps:
            d = {}
            for c, f in r["frames"]:
                d.setdefault(c, []).append(wire.strip(f))
            inproc.append(d)
        a, b = canon_run(out), canon_run(inproc)
        acc.ev["c09_wire_fidelity_steps"] += len(a)
        dd = diff.first_difference(a, b)
        if dd:
            acc.extra["harness_infidelity"] += 1
            acc.errors.append("harness infidelity (wire:%d): %s" % (s, dd[:300]))
        acc.cases += 1
        acc.distinct.add("wire:%d" % s)
    finally:
        _sh.rmtree(wd, ignore_errors=True)


def jobs(pid, tier, seed):
    out = []
    for name, params in scenarios.directed_for(pid, tier):
        out.append({"kind": "directed", "name": name, "params": params})
    nw = 24 if tier == "quick" else 600
    out += [{"kind": "wire", "seed": seed * 1000003 + 900000 + i} for i in range(nw)]
    n = 2500 if tier == "quick" else 50000
    out += [{"kind": "random", "seed": seed * 1000003 + i} for i in range(n)]
    out += [{"kind": "random", "seed": seed * 1000003 + 5000000 + i, "life": 1} for i in range(n)]
    return out


def run_job(pid, job, acc):
    every = 7

    def pre(ex):
        ex.world.frame_hooks.append(ImageSampler(acc, every))
    if job["kind"] == "wire":
        return run_wire_job(job, acc)
    if job["kind"] == "random":
        s = job["seed"]
        # (every third life history names one mailbox id in both apps: what commands do after the known F8 failure)
        hist = generate(s, style=("life" if job.get("life") else None), **dict(GEN, **({"cross_app_mailboxes": s % 3 == 0, "two_apps": s % 3 == 0} if job.get("life") else {})))
        cfg = cfg_for(s)
        run_hist(acc, hist, cfg, s, "random:%d" % s, nontrivial_keys=KEYS, keep_sample=(len(acc.samples) < 1), pre=pre)
    else:
        for case, hist, cfg, opts in scenarios.build(pid, job["name"], job["params"]):
            run_hist(acc, hist, cfg, 0, case, nontrivial_keys=KEYS, keep_sample=(len(acc.samples) < 2), pre=pre, **opts)


def replay(pid, rep):
    if rep.get("kind") == "wire":
        acc = Acc(pid)
        run_wire_job({"seed": rep["seed"]}, acc)
        return acc
    return replay_history(rep, pid)
