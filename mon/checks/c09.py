"""C09: a response is sent only after its effects are committed.

Hook at every frame emission (tracker.on_frame): no server connection is inside a transaction; the
independent reader already sees what the frame acknowledges.  On a sample of acknowledging frames
the database files (and hot journals) are copied at that instant - the bytes a kill -9 would leave -
re-opened with plain sqlite3 (running SQLite's recovery) and judged by the same effect oracle.
PRAGMA synchronous / journal_mode of the server's connections are read after every (re)start."""
import shutil, sqlite3, os
from .common import *
from .. import scenarios
from ..engine import new_workdir, rmtree

GEN = dict(napps=2, nsides=3, steps=70, p_illegal=0.1)
KEYS = ("c09_emit_message", "c09_emit_claimed", "c09_emit_closed", "c09_emit_released")
ACKS = ("allocated", "claimed", "released", "closed", "message")


class ImageSampler(object):
    def __init__(self, acc, every):
        self.acc = acc
        self.every = every
        self.n = 0

    def __call__(self, world, conn, frame):
        if frame.get("type") not in ACKS:
            return
        self.n += 1
        if self.n % self.every:
            return
        tr = world.monitors[0]
        st = world.cur
        if st is None or st.kind != "cmd":
            return
        img = new_workdir("img")
        try:
            for base in (world.channel_path, world.usage_path):
                for suf in ("", "-journal"):
                    if os.path.exists(base + suf):
                        shutil.copy(base + suf, os.path.join(img, os.path.basename(base) + suf))
            c = sqlite3.connect(os.path.join(img, "channel.sqlite"))
            saved = world.reader
            nv = len(tr.violations)
            try:
                world.reader = c
                tr._effects_at_emission(world, st, conn.name, frame)
            finally:
                world.reader = saved
                c.close()
            self.acc.ev["c09_crash_image_checked"] += 1
            if len(tr.violations) > nv:
                tr.violations[-1]["detail"]["in_crash_image"] = True
        finally:
            rmtree(img)


def jobs(pid, tier, seed):
    out = []
    for name, params in scenarios.directed_for(pid, tier):
        out.append({"kind": "directed", "name": name, "params": params})
    n = 2500 if tier == "quick" else 50000
    out += [{"kind": "random", "seed": seed * 1000003 + i} for i in range(n)]
    return out


def run_job(pid, job, acc):
    every = 7

    def pre(ex):
        ex.world.frame_hooks.append(ImageSampler(acc, every))
    if job["kind"] == "random":
        s = job["seed"]
        hist = generate(s, **GEN)
        cfg = cfg_for(s)
        run_hist(acc, hist, cfg, s, "random:%d" % s, nontrivial_keys=KEYS, keep_sample=(len(acc.samples) < 1), pre=pre)
    else:
        for case, hist, cfg, opts in scenarios.build(pid, job["name"], job["params"]):
            run_hist(acc, hist, cfg, 0, case, nontrivial_keys=KEYS, keep_sample=(len(acc.samples) < 2), pre=pre, **opts)


def replay(pid, rep):
    return replay_history(rep, pid)
