"""C04: allocate returns a free, shortest-available nameplate and holds it.

Online post-condition at every `allocated` emission (tracker: facts_cmd._cmd_allocate and
facts._effects_at_emission) over allocate-heavy histories, plus, per reached state, an exhaustive
drive of the random choice through the real _find_available_nameplate_id, plus a 999-fill."""
from .common import *
from ..facts_cmd import allocation_problems
from ..engine import World, new_workdir, rmtree, Monitor
from ..scenarios import HB

GEN = dict(napps=2, nsides=3, steps=80, names=["1", "2", "3", "4", "5", "6", "7", "8", "9", "05", " 12", "1000", "x", "10"], p_illegal=0.03)
KEYS = ("c04_allocate",)


def jobs(pid, tier, seed):
    out = [{"kind": "fill", "allow_list": a, "usage": u} for a in (True, False) for u in ((True, False) if tier == "thorough" else (False,))]
    out += [{"kind": "holes", "allow_list": a, "level": l} for a in (True, False) for l in (1, 2, 3)]
    out += [{"kind": "still-held", "variant": v} for v in range(16)]
    out += [{"kind": "retire", "allow_list": a, "level": l, "how": h, "warm": w, "usage": u}
            for a in (True, False) for l in (1, 2) for h in ("release", "close", "close-two-sides", "expiry-one", "restart-close")
            for w in (0, 1, 2, 3) for u in (0, 1) if (l == 1 and (w < 2 or u == 0)) or (w in (1, 2) and u == 0 and (a or tier == "thorough"))]
    n = 2500 if tier == "quick" else 50000
    out += [{"kind": "random", "seed": seed * 1000003 + i} for i in range(n)]
    out += [{"kind": "random", "seed": seed * 1000003 + 5000000 + i, "life": 1} for i in range(n)]
    return out


def names_in_use(world, app):
    return {r[0] for r in world.reader.execute("SELECT name FROM nameplates WHERE app_id=?", (app,)).fetchall()}


def choice_outcomes(world, fn):
    """-> (every outcome of the allocator's random choice in the current state, size of the choice set or 0)"""
    sizes = []
    kr = world.krandom
    try:
        kr.force = lambda seq: (sizes.append(len(seq)), seq[0])[1]
        first = fn()
        n = sizes[0] if sizes else 0
        outcomes = [first]
        for i in range(1, n):
            kr.force = lambda seq, i=i: seq[i]
            outcomes.append(fn())
        if not sizes:
            # 4-6 digit regime: the choice is randrange; sample it
            kr.force = None
            outcomes += [fn() for _ in range(50)]
    finally:
        kr.force = None
    return outcomes, n


def exhaust_choice(acc, world, app, case):
    """Every outcome of the random choice in the current state, through the real function."""
    srv = world.server
    try:
        ns = srv.get_app(app)
        fn = ns._find_available_nameplate_id
    except Exception as e:
        acc.extra["c04_exhaustive_unavailable"] += 1
        return
    used = names_in_use(world, app)
    outcomes, n = choice_outcomes(world, fn)
    acc.extra["c04_choice_states"] += 1
    for name in outcomes:
        acc.ev["c04_choice_outcome"] += 1
        pr = allocation_problems(name, used)
        if pr:
            acc.add_violation({"property": "C04", "kind": "choice", "case": case,
                               "violation": {"props": ["C04"], "kind": "an outcome of the random choice violates free/shortest",
                                             "detail": {"name": name, "problems": pr, "in_use": sorted(used)[:50], "app": app}}})
            return
    if n:
        # all outcomes distinct and exactly the free values of the shortest length
        if len(set(outcomes)) != n:
            acc.add_violation({"property": "C04", "kind": "choice", "case": case,
                               "violation": {"props": ["C04"], "kind": "choice set has duplicates", "detail": {"n": n}}})


def run_job(pid, job, acc):
    k = job["kind"]
    if k == "random":
        s = job["seed"]
        hist = generate(s, style=("life" if job.get("life") else None), **GEN)
        cfg = cfg_for(s)

        def post(ex):
            if not ex.halted() and ex.world.running:
                apps = sorted({st[2]["appid"] for st in hist if st[0] == "send" and isinstance(st[2], dict)
                               and st[2].get("type") == "bind" and isinstance(st[2].get("appid"), str)})
                for app in apps[:3]:
                    exhaust_choice(acc, ex.world, app, "random:%d" % s)
        run_hist(acc, hist, cfg, s, "random:%d" % s, nontrivial_keys=KEYS, keep_sample=(len(acc.samples) < 1),
                 quiesce=False, post=post)
    elif k == "holes":
        run_holes(job, acc)
    elif k == "still-held":
        run_still_held(job, acc)
    elif k == "retire":
        run_retire(job, acc)
    elif k == "fill":
        run_fill(job, acc)


def run_holes(job, acc):
    """Punch holes at 1-, 2-, 3-digit level with explicit claims, then allocate and enumerate the choice."""
    lvl = job["level"]
    cfg = Config(usage=False, allow_list=job["allow_list"])
    ex = Exec(cfg, seed=lvl)
    case = "holes:%s" % sorted(job.items())
    try:
        ex.start()
        w = ex.world
        hi = {1: 9, 2: 30, 3: 120}[lvl]
        hist = []
        b = HB()
        keep_free = {1: {3, 7}, 2: {4, 17, 23}, 3: {9, 55, 101, 119}}[lvl]
        for i in range(1, hi + 1):
            if i in keep_free and (lvl == 1 or i >= 10 ** (lvl - 1)):
                continue
            c = b.conn("app", "s1")
            b.send(c, type="claim", nameplate="%d" % i)
        # at the higher levels everything shorter must be taken for the level to be reached
        for nm in ("05", " 12", "1000", "x", "007"):
            c = b.conn("app", "s2")
            b.send(c, type="claim", nameplate=nm)
        ex.run(b.h, stop_prop="C04")
        exhaust_choice(acc, w, "app", case)
        exhaust_choice(acc, w, "app2", case)
        b2 = HB()
        b2.n = b.n
        for j in range(6):
            c = b2.conn("app", "s3")
            b2.send(c, type="allocate")
            c2 = b2.conn("app2", "s3")
            b2.send(c2, type="allocate")
        ex.run(b2.h, stop_prop="C04")
        exhaust_choice(acc, w, "app", case)
        base = {"property": "C04", "kind": "history", "cfg": cfg.to_json(), "seed": lvl, "history": b.h + b2.h, "case": case,
                "timer": True, "quiesce": False}
        acc.cases += 1
        acc.absorb_tracker(ex.tracker, w, hhash(base["history"]), base, KEYS)
    finally:
        ex.close()


def run_still_held(job, acc):
    """The allocating side holds its nameplate through anything other sides (or it, on other nameplates) do:
    it also holds a second nameplate and releases that one; another side claims and releases the allocated one;
    other connections come and go.  The next allocate must not return the allocated name."""
    v = job["variant"]
    cfg = Config(usage=bool(v & 1), allow_list=bool(v & 2))
    case = "still-held:%d" % v
    b = HB()
    for i in range(1, 10):
        if i != 5:
            c = b.conn("app", "s9")
            b.send(c, type="claim", nameplate="%d" % i)
    A = b.conn("app", "s1")
    b.send(A, type="allocate")                     # gets "5"
    A2 = b.conn("app", "s1")
    b.send(A2, type="claim", nameplate="77" if v & 4 else "x")
    if v & 8:
        b.send(A2, type="open", mailbox={"$claimed": A2})
    b.send(A2, type="release")
    if v & 8:
        b.send(A2, type="close", mood="happy")
    B = b.conn("app", "s2")
    b.send(B, type="claim", nameplate={"$alloc": A})
    b.send(B, type="release")
    b.drop(A)
    b.send(B, type="list")
    C = b.conn("app", "s3")
    b.send(C, type="allocate")
    C2 = b.conn("app", "s4")
    b.send(C2, type="allocate")
    ex = Exec(cfg, seed=v)
    try:
        ex.start()
        ex.run(b.h, stop_prop="C04")
        acc.ev["c04_still_held_scenario"] += 1
        base = {"property": "C04", "kind": "history", "cfg": cfg.to_json(), "seed": v, "history": b.h, "case": case,
                "timer": True, "quiesce": False}
        acc.cases += 1
        acc.absorb_tracker(ex.tracker, ex.world, hhash(b.h), base, KEYS)
    finally:
        ex.close()


def run_retire(job, acc):
    """A level is full; one name is retired by release / last close / expiry / close after a restart;
    the next allocate must return exactly that name (it is the only free value of the shortest length)."""
    lvl, how = job["level"], job["how"]
    cfg = Config(usage=bool(job["usage"]), allow_list=job["allow_list"])
    case = "retire:%s" % sorted(job.items())
    hi = 9 if lvl == 1 else 99
    victim = 5 if lvl == 1 else 42
    b = HB()
    if job["warm"]:
        w0 = b.conn("app", "s9")          # an earlier allocate and list in this app (loads whatever is cached)
        b.send(w0, type="allocate")
        b.send(w0, type="list")
        b.send(w0, type="release", nameplate={"$alloc": w0})
    holder = None
    for i in range(1, hi + 1):
        c = b.conn("app", "s1")
        b.send(c, type="claim", nameplate="%d" % i)
        if i == victim:
            holder = c
            b.send(c, type="open", mailbox={"$claimed": c})
            if how == "close-two-sides":
                c2 = b.conn("app", "s2")
                b.send(c2, type="claim", nameplate="%d" % i)
                b.send(c2, type="open", mailbox={"$claimed": c})
    if job["warm"] >= 2:
        # an allocate while the level is full (answered with a longer name) - whatever that made the server remember
        # about full levels is out of date as soon as a name of this level is retired
        w1 = b.conn("app", "s8")
        b.send(w1, type="allocate")
        if job["warm"] == 3:
            b.send(w1, type="release", nameplate={"$alloc": w1})
    if how == "expiry-one":
        # everybody but the victim's holder stays subscribed... simpler: refresh all others just before the sweep
        b.drop(holder)
        b.adv(400)
        for i in range(1, hi + 1):
            if i != victim:
                c = b.conn("app", "s1")
                b.send(c, type="claim", nameplate="%d" % i)
        b.adv(300)      # sweep at 600: victim idle 600 < 660, survives
        b.adv(300)      # sweep at 900: victim idle 900 > 660, others idle 500
    elif how == "release":
        b.send(holder, type="release")
        b.send(holder, type="close", mood="happy")
    elif how == "close":
        b.send(holder, type="close", mood="happy")
    elif how == "close-two-sides":
        b.send(holder, type="close", mood="happy")
        b.send(c2, type="close", mood="happy")
    elif how == "restart-close":
        b.restart()
        r = b.conn("app", "s1")
        b.send(r, type="list")
        b.send(r, type="close", mailbox={"$claimed": holder}, mood="lonely")
    L = b.conn("app", "s3")
    b.send(L, type="list")
    A = b.conn("app", "s3")
    b.send(A, type="allocate")
    ex = Exec(cfg, seed=lvl)
    try:
        ex.start()
        ex.run(b.h, stop_prop="C04")
        got = ex.allocs.get(A)
        acc.ev["c04_only_free_name_after_retirement"] += 1
        acc.ev["c04_retired_by_" + how] += 1
        if got != "%d" % victim and not [v for v in ex.tracker.violations if "C04" in v["props"]]:
            used = sorted(names_in_use(ex.world, "app"))
            ex.tracker.flag({"C04"}, "allocate did not return the only free value of the shortest length", None,
                            {"expected": "%d" % victim, "got": got, "retired_by": how, "in_use_now": used[:20]})
        exhaust_choice(acc, ex.world, "app", case)
        base = {"property": "C04", "kind": "history", "cfg": cfg.to_json(), "seed": lvl, "history": b.h, "case": case,
                "timer": True, "quiesce": False}
        acc.cases += 1
        acc.absorb_tracker(ex.tracker, ex.world, hhash(b.h), base, KEYS)
    finally:
        ex.close()


class AllocWatch(Monitor):
    """Minimal C04 monitor for the fill run (no per-step dumps): judges every `allocated` frame at emission."""
    def __init__(self, acc, case):
        self.acc, self.case = acc, case
        self.used_before = None
        self.app = None
        self.side = None

    def on_begin(self, world, st):
        if st.kind == "cmd" and isinstance(st.msg, dict) and st.msg.get("type") == "allocate":
            self.used_before = names_in_use(world, self.app)

    def on_frame(self, world, st, conn, frame):
        if frame.get("type") != "allocated":
            return
        name = frame.get("nameplate")
        self.acc.ev["c04_allocate"] += 1
        self.acc.ev["c09_emit_allocated"] += 1
        pr = allocation_problems(name, self.used_before) if isinstance(name, str) else ["not a string"]
        held = world.reader.execute(
            "SELECT COUNT(*) FROM nameplates n JOIN nameplate_sides s ON s.nameplates_id=n.id"
            " WHERE n.app_id=? AND n.name=? AND s.side=? AND s.claimed=1", (self.app, name, self.side)).fetchone()[0]
        if world.any_in_transaction():
            pr.append("answer sent inside an open transaction")
        if held != 1:
            pr.append("not held by the allocating side when the answer is sent")
        if pr:
            self.acc.add_violation({"property": "C04", "kind": "fill", "case": self.case,
                                    "violation": {"props": ["C04"], "kind": "allocated nameplate violates free/shortest/held",
                                                  "detail": {"name": name, "problems": pr, "n_in_use": len(self.used_before)}}})


def run_fill(job, acc):
    """Claim all 999 short names for real, then allocate in the 4-6 digit regime, free one, allocate again."""
    cfg = Config(usage=job["usage"], allow_list=job["allow_list"])
    case = "fill:%s" % sorted(job.items())
    wd = new_workdir("c04")
    watch = AllocWatch(acc, case)
    w = World(wd, cfg, seed=7, monitors=[watch], dump_every_step=False)
    try:
        w.start()
        watch.app, watch.side = "app", "sA"
        last = None
        for i in range(1, 1000):
            c = w.connect()
            w.send(c.name, {"type": "bind", "appid": "app", "side": "sF"})
            w.send(c.name, {"type": "claim", "nameplate": "%d" % i})
            last = c
            w.drop(c.name)
        assert len(names_in_use(w, "app")) == 999
        exhaust_choice(acc, w, "app", case)
        longs = []
        for j in range(12):
            c = w.connect()
            w.send(c.name, {"type": "bind", "appid": "app", "side": "sA"})
            st = w.send(c.name, {"type": "allocate"})
            longs += [f.get("nameplate") for _, f in st.frames if f.get("type") == "allocated"]
        acc.extra["c04_long_allocations"] += len(longs)
        # the two extreme outcomes of the draw from the long range (whatever function the tree draws with)
        for ext in ("hi", "lo", "hi"):
            w.krandom.range_force = ext
            c = w.connect()
            w.send(c.name, {"type": "bind", "appid": "app", "side": "sA"})
            st = w.send(c.name, {"type": "allocate"})
            got = [f.get("nameplate") for _, f in st.frames if f.get("type") == "allocated"]
            acc.extra["c04_extreme_draws"] += 1
            longs += got
        w.krandom.range_force = None
        # another app is unaffected: still gets a one-digit name
        watch.app, watch.side = "app2", "sA"
        c = w.connect()
        w.send(c.name, {"type": "bind", "appid": "app2", "side": "sA"})
        w.send(c.name, {"type": "allocate"})
        # free one short name; the next allocate must return exactly it
        watch.app = "app"
        c = w.connect()
        w.send(c.name, {"type": "bind", "appid": "app", "side": "sF"})
        w.send(c.name, {"type": "release", "nameplate": "437"})
        exhaust_choice(acc, w, "app", case)
        c = w.connect()
        w.send(c.name, {"type": "bind", "appid": "app", "side": "sA"})
        st = w.send(c.name, {"type": "allocate"})
        got = [f.get("nameplate") for _, f in st.frames if f.get("type") == "allocated"]
        acc.ev["c04_refill_exact"] += 1
        if got != ["437"]:
            acc.add_violation({"property": "C04", "kind": "fill", "case": case,
                               "violation": {"props": ["C04"], "kind": "only free short name not returned", "detail": {"got": got}}})
        acc.cases += 1
        acc.distinct.add(hhash(case))
        acc.steps += w.counters["steps"]
        acc.frames += w.counters["frames"]
        acc.commits += w.counters["commits"]
        if len(acc.samples) < 3:
            acc.samples.append({"case": case, "long_allocations": longs, "refill": got})
    finally:
        w.close()
        rmtree(wd)


def replay(pid, rep):
    acc = Acc(pid)
    if rep.get("kind") == "history":
        return replay_history(rep, pid)
    c = rep.get("case", "")
    if c.startswith("fill"):
        run_fill({"allow_list": "True" in c.split("allow_list")[1][:8], "usage": "('usage', True)" in c}, acc)
    elif c.startswith("retire"):
        for job in jobs(pid, "quick", 0):
            if job["kind"] == "retire":
                run_retire(job, acc)
    elif c.startswith("holes"):
        for a in (True, False):
            for l in (1, 2, 3):
                run_holes({"kind": "holes", "allow_list": a, "level": l}, acc)
    return acc
