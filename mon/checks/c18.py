"""C18: listing and usage options change nothing but what they advertise.

Differential across configurations: the same history under {listing allowed, disallowed} x
{no usage db, usage db} x {no blur, 0, 1, 61, 3600}; all frames except `nameplates` answers (and the
welcome notices) and all channel rows must be identical.  Every `list` answer is judged online by
the tracker: exactly the live nameplates of the caller's app when allowed, empty when disallowed."""
from .common import *
from .. import scenarios, diff

GEN = dict(napps=2, nsides=3, steps=64, p_illegal=0.04)
BASE = Config(usage=False, blur=None, allow_list=True)
VARIANTS = [Config(usage=u, blur=b, allow_list=a) for a in (True, False) for u in (False, True) for b in (None, 0, 1, 61, 3600)
            if not (a and not u and b is None)]


def jobs(pid, tier, seed):
    n = 450 if tier == "quick" else 9000
    out = [{"kind": "cfg", "seed": seed * 1000003 + i, "nvar": 4 if tier == "quick" else len(VARIANTS)} for i in range(n)]
    out += [{"kind": "list", "seed": seed * 1000003 + 500000 + i} for i in range(n)]
    out += [{"kind": k, "seed": seed * 1000003 + 5000000 + i, "nvar": 4 if tier == "quick" else len(VARIANTS), "life": 1}
            for i in range(3 * n) for k in (("cfg", "list") if i < n else ("cfg",))]
    out += [{"kind": "bulk_list", "n": nn, "allow_list": a} for nn in (1010, 1200) for a in (1, 0)]
    for name, params in scenarios.directed_for(pid, tier):
        out.append({"kind": "directed", "name": name, "params": params})
    out += [{"kind": "alloc_choice", "level": l, "usage": u} for l in range(5) for u in (0, 1)]
    return out


def run_alloc_choice(job, acc):
    """The allocator's whole choice set - every outcome of its random draw, through the real function - in one stored
    state must be the same with listing allowed and disallowed (and with or without a usage database)."""
    from ..engine import World, new_workdir, rmtree
    from .c04 import choice_outcomes
    lvl = job["level"]
    held = {0: ["3"], 1: [str(i) for i in range(1, 10) if i != 6], 2: [str(i) for i in range(1, 10)] + ["12", "40", "07", " 5"],
            3: [str(i) for i in range(1, 100) if i != 57], 4: [str(i) for i in range(1, 100)] + ["100", "250", "999"]}[lvl]
    seen = {}
    for allow in (True, False):
        cfg = Config(usage=bool(job["usage"]) and allow, allow_list=allow)
        wd = new_workdir("ac")
        w = World(wd, cfg, seed=lvl, dump_every_step=False)
        try:
            w.start()
            for i, nm in enumerate(held):
                c = w.connect()
                w.send(c.name, {"type": "bind", "appid": "app", "side": "s%d" % (i % 3)})
                w.send(c.name, {"type": "claim", "nameplate": nm})
                if i % 2:
                    w.drop(c.name)
            o = w.connect()
            w.send(o.name, {"type": "bind", "appid": "app2", "side": "s1"})
            w.send(o.name, {"type": "claim", "nameplate": "6"})
            outs, n = choice_outcomes(w, w.server.get_app("app")._find_available_nameplate_id)
            seen[allow] = (sorted(set(outs)) if n else ["<%d sampled>" % len(outs)], n)
            acc.steps += w.counters["steps"]
        finally:
            w.close()
            rmtree(wd)
    acc.cases += 1
    acc.ev["c18_config_pair"] += 1
    acc.ev["c18_alloc_choice_sets_compared"] += 1
    acc.distinct.add("alloc_choice:%d:%d" % (lvl, job["usage"]))
    if seen[True] != seen[False]:
        acc.add_violation({"property": "C18", "kind": "alloc_choice", "case": "alloc_choice:%s" % sorted(job.items()), "job": job,
                           "violation": {"props": ["C18", "C04"], "kind": "the allocator's choice set differs between listing allowed and disallowed",
                                         "detail": {"held": held[:12], "n_held": len(held), "allowed": [seen[True][0][:12], seen[True][1]],
                                                    "disallowed": [seen[False][0][:12], seen[False][1]]}, "step": None}})


def observe(hist, cfg, seed):
    ex = Exec(cfg, seed=seed, track=False)
    try:
        ex.start()
        rec = diff.record(ex, hist)
        can = diff.Canon()
        fr = diff.canon_frames(rec, can, skip_types=("nameplates", "welcome"))
        store = diff.canon_store(rec.final, can)
        return {"frames": fr, "store": store}, ex.world.counters
    finally:
        ex.close()


def run_job(pid, job, acc):
    if job["kind"] == "alloc_choice":
        return run_alloc_choice(job, acc)
    if job["kind"] == "bulk_list":
        from .histcheck import run_bulk_list
        return run_bulk_list(pid, job, acc)
    if job["kind"] == "directed":
        for case, hist, cfg, opts in scenarios.build(pid, job["name"], job["params"]):
            run_hist(acc, hist, cfg, 0, case, nontrivial_keys=("list_answer",), keep_sample=(len(acc.samples) < 1), **opts)
        return
    s = job["seed"]
    style = "life" if job.get("life") else None
    hist = generate(s, style=style, **GEN)
    if job["kind"] == "list":
        # the `list` oracle itself (tracker), under listing allowed and disallowed
        cfg = Config(usage=(s % 2 == 0), blur=[None, 61][s % 2], allow_list=(s % 4 < 2))
        g = generate(s, style=style, **dict(GEN, list_cmd=True))
        run_hist(acc, g, cfg, s, "list:%d" % s, nontrivial_keys=("list_answer",), quiesce=False,
                 keep_sample=(len(acc.samples) < 1))
        return
    base, cnt = observe(hist, BASE, s)
    acc.steps += cnt["steps"]
    acc.frames += cnt["frames"]
    import random
    r = random.Random(s)
    vs = VARIANTS if job["nvar"] >= len(VARIANTS) else r.sample(VARIANTS, job["nvar"])
    for v in vs:
        other, cnt = observe(hist, v, s)
        acc.steps += cnt["steps"]
        acc.frames += cnt["frames"]
        acc.ev["c18_config_pair"] += 1
        acc.ev["c18_pair_%s_%s_%s" % ("list" if v.allow_list else "nolist", "usage" if v.usage else "nousage", v.blur)] += 1
        d = diff.first_difference(base, other)
        if d:
            again, _ = observe(hist, BASE, s)
            if diff.first_difference(base, again):
                acc.errors.append("self-check failed (uncontrolled nondeterminism) seed %d" % s)
                return
            acc.add_violation({"property": "C18", "kind": "cfg", "case": "cfg:%d" % s, "cfg": v.to_json(), "seed": s, "history": hist,
                               "violation": {"props": ["C18"], "kind": "observations differ between configurations",
                                             "detail": {"base": BASE.to_json(), "other": v.to_json(), "first_difference": d}, "step": None}})
            return
    acc.cases += 1
    acc.distinct.add(hhash(hist))
    if len(acc.samples) < 2:
        acc.samples.append({"case": "cfg:%d" % s, "variants": [v.to_json() for v in vs], "history_head": hist[:15]})


def replay(pid, rep):
    if rep.get("kind") in ("bulk_list", "alloc_choice"):
        acc = Acc(pid)
        run_job(pid, rep["job"], acc)
        return acc
    if rep.get("kind") == "cfg":
        acc = Acc(pid)
        s = rep["seed"]
        run_job(pid, {"kind": "cfg", "seed": s, "nvar": len(VARIANTS)}, acc)
        return acc
    return replay_history(rep, pid)
