"""C10: any crash leaves a database the server can restart from and clean up.

Crash points: before and after every commit of either database inside every command and sweep of a
live history - the file images (database + hot journal) a kill -9 at that instant leaves, copied
from inside the commit hook.  Per distinct image (by logical content after SQLite's recovery):
 (1) the server's own open routines accept it (includes PRAGMA foreign_key_check), integrity_check ok;
 (2) no duplicate nameplate / side / mailbox records, no dangling references;
 (3) nobody returns: a service built on the image sweeps without internal errors and the store is
     empty after expiry + 2 periods;
 (4) clients resume: fresh connections bind with the same sides, the in-flight claim/release/open/
     close is re-sent, a continuation is executed; answers and final channel rows must equal those
     of the reference (same continuation, no re-send, started from the files as they were when the
     command had completed)."""
import os, shutil, sqlite3, hashlib, json, random
from collections import Counter
from .common import *
from .. import diff
from ..gen import Gen
from ..engine import new_workdir, rmtree, dump_tables, CHANNEL_TABLES, USAGE_TABLES, T0
from ..model import EXPIRY, PERIOD

GEN = dict(napps=2, nsides=3, steps=40, p_illegal=0.03, restarts=False, long_advances=True)
RESUMABLE = ("claim", "release", "open", "close")


def copy_db_files(src, dst):
    os.makedirs(dst, exist_ok=True)
    for f in os.listdir(src):
        if f.endswith(".sqlite") or f.endswith("-journal"):
            shutil.copy(os.path.join(src, f), os.path.join(dst, f))


def logical_state(imgdir):
    """Dump of both databases after SQLite's own recovery (on a throw-away copy)."""
    tmp = new_workdir("ls")
    try:
        copy_db_files(imgdir, tmp)
        out = {}
        for name, tables in (("channel.sqlite", CHANNEL_TABLES), ("usage.sqlite", USAGE_TABLES)):
            p = os.path.join(tmp, name)
            if os.path.exists(p):
                c = sqlite3.connect(p)
                try:
                    out[name] = dump_tables(c, tables)
                finally:
                    c.close()
        return out
    finally:
        rmtree(tmp)


def state_hash(ls):
    return hashlib.sha256(json.dumps(ls, sort_keys=True, default=str).encode()).hexdigest()[:20]


def structural_problems(d):
    pr = []
    for k, n in Counter((r["app_id"], r["name"]) for r in d["nameplates"].values()).items():
        if n > 1:
            pr.append("duplicate nameplate %r" % (k,))
    for k, n in Counter((r["nameplates_id"], r["side"]) for r in d["nameplate_sides"].values()).items():
        if n > 1:
            pr.append("duplicate nameplate side %r" % (k,))
    for k, n in Counter((r["mailbox_id"], r["side"]) for r in d["mailbox_sides"].values()).items():
        if n > 1:
            pr.append("duplicate mailbox side %r" % (k,))
    for k, n in Counter(r["id"] for r in d["mailboxes"].values()).items():
        if n > 1:
            pr.append("duplicate mailbox %r" % (k,))
    mids = {r["id"] for r in d["mailboxes"].values()}
    for r in d["nameplates"].values():
        if r["mailbox_id"] not in mids:
            pr.append("nameplate %r points at no mailbox" % (r["name"],))
    for r in d["nameplate_sides"].values():
        if r["nameplates_id"] not in d["nameplates"]:
            pr.append("nameplate side without nameplate")
    for r in d["mailbox_sides"].values():
        if r["mailbox_id"] not in mids:
            pr.append("mailbox side without mailbox")
    return pr


class Imager(object):
    """Commit hook: copies the files at both sides of every real commit."""
    def __init__(self, root):
        self.root = root
        self.images = []
        self.enabled = True

    def __call__(self, world, dbconn, phase):
        if not self.enabled:
            return
        st = world.cur
        n = len(self.images)
        d = os.path.join(self.root, "img%d" % n)
        copy_db_files(world.workdir, d)
        self.images.append({"n": n, "dir": d, "step": st.i if st is not None else None,
                            "kind": st.kind if st is not None else None, "phase": phase,
                            "db": os.path.basename(dbconn.v_path), "t": world.now,
                            "msg": st.msg if st is not None else None, "conn": st.conn if st is not None else None})


def viol(acc, case, kind, detail, replay):
    acc.add_violation(dict(replay, property="C10", case=case,
                           violation={"props": ["C10"], "kind": kind, "detail": detail, "step": detail.get("step")}))


def check_image_static(acc, database, img, ls, case, replay):
    """(1) and (2)."""
    acc.ev["c10_image_static"] += 1
    tmp = new_workdir("st")
    try:
        copy_db_files(img["dir"], tmp)
        try:
            c = database.create_or_upgrade_channel_db(os.path.join(tmp, "channel.sqlite"))
            ic = c.execute("PRAGMA integrity_check").fetchall()
            c.close()
            if os.path.exists(os.path.join(tmp, "usage.sqlite")):
                u = database.create_or_upgrade_usage_db(os.path.join(tmp, "usage.sqlite"))
                ic += u.execute("PRAGMA integrity_check").fetchall()
                u.close()
        except Exception as e:
            viol(acc, case, "server's open routine rejects the crashed files", {"exc": "%s: %s" % (type(e).__name__, e), "image": _img(img)}, replay)
            return False
        bad = [x for x in ic if (list(x.values())[0] if isinstance(x, dict) else x[0]) != "ok"]
        if bad:
            viol(acc, case, "integrity_check fails on the crashed files", {"result": repr(bad[:3]), "image": _img(img)}, replay)
            return False
    finally:
        rmtree(tmp)
    pr = structural_problems(ls["channel.sqlite"])
    if pr:
        viol(acc, case, "crashed files hold duplicate or dangling records", {"problems": pr[:5], "image": _img(img)}, replay)
        return False
    return True


def _img(img):
    return {k: img[k] for k in ("n", "step", "kind", "phase", "db")} | {"msg": img.get("msg")}


def nobody_returns(acc, img, cfg, seed, case, replay):
    """(3)"""
    acc.ev["c10_nobody_returns"] += 1
    wd = new_workdir("nr")
    copy_db_files(img["dir"], wd)
    ex = Exec(cfg, seed=seed, workdir=wd, t0=img["t"])
    try:
        try:
            ex.start()
        except Exception as e:
            viol(acc, case, "server cannot start on the crashed files", {"exc": repr(e), "image": _img(img)}, replay)
            return
        ex.world.advance(EXPIRY + 2 * PERIOD + 1)
        tr = ex.tracker
        bad = [v for v in tr.violations if v["kind"] in ("sweep failed", "timer fired without a sweep", "service failed to start/stop",
                                                         "failed sweep left partial changes",
                                                         "database connection opened with weakened durability settings")]
        if bad:
            viol(acc, case, "sweeps on the crashed files fail internally", {"first": bad[0], "image": _img(img)}, replay)
            return
        left = {t: len(r) for t, r in ex.world.dump().items() if r}
        if left:
            viol(acc, case, "store not emptied after a crash although nobody returned", {"left": left, "image": _img(img)}, replay)
        acc.steps += ex.world.counters["steps"]
    finally:
        ex.close()
        rmtree(wd)


SERVE_BAD = ("internal failure in handler", "server dropped the connection", "transaction left open after step",
             "sweep failed", "timer fired without a sweep", "failed sweep left partial changes",
             "duplicate nameplate row", "duplicate nameplate side row", "duplicate mailbox side row",
             "allocated nameplate violates free/shortest rule", "allocated nameplate not held by the allocating side",
             "frame emitted inside an open transaction")


def others_return(acc, img, cfg, seed, case, replay, hi):
    """Third continuation: the in-flight client never returns, *other* clients do.  A service on the image
    serves an allocate-heavy generated continuation under the full tracker; the objects found in the image
    are of unknown origin (their lifetime oracles are off), but the server must serve without internal
    errors, dropped connections, duplicate records or allocations of names that are still stored."""
    acc.ev["c10_others_return"] += 1
    wd = new_workdir("or")
    copy_db_files(img["dir"], wd)
    ex = Exec(cfg, seed=seed, workdir=wd, t0=img["t"])
    try:
        try:
            ex.start()
        except Exception as e:
            viol(acc, case, "server cannot start on the crashed files", {"exc": repr(e), "image": _img(img)}, replay)
            return
        from ..scenarios import HB
        b = HB()
        b.n = 800
        for i in range(10):
            c = b.conn("app" if i % 3 else "app2", "s%d" % (1 + i % 3))
            b.send(c, type="allocate")
            if i % 2:
                b.send(c, type="list")
        g = Gen(seed * 104729 + hi, **dict(GEN, steps=24))
        g.nconn = 900
        ex.run(b.h + g.gen(), stop_on_violation=False)
        bad = [v for v in ex.tracker.violations if v["kind"] in SERVE_BAD]
        if bad:
            viol(acc, case, "restarted server does not serve other clients cleanly after a crash",
                 {"first": {"kind": bad[0]["kind"], "detail": bad[0]["detail"]}, "image": _img(img)}, replay)
        acc.steps += ex.world.counters["steps"]
        acc.frames += ex.world.counters["frames"]
    finally:
        ex.close()
        rmtree(wd)


def continuation(acc, imgdir, t, cfg, seed, counters, binds, resend, suffix):
    """Service on a copy of imgdir; everybody reconnects; [re-send]; suffix.  -> (frames, store, resend answer)"""
    wd = new_workdir("co")
    copy_db_files(imgdir, wd)
    ex = Exec(cfg, seed=seed, track=False, workdir=wd, t0=t)
    try:
        ex.start()
        swept = set()
        for st in ex.world.steps:
            if st.kind == "sweep" and st.before is not None and st.after is not None:
                swept |= {r["id"] for r in st.before["mailboxes"].values()} - {r["id"] for r in st.after["mailboxes"].values()}
        ex.world.krandom.counters = dict(counters)
        pre = []
        for old, (app, side) in binds:
            pre.append(["connect", "r-" + old])
            pre.append(["send", "r-" + old, {"type": "bind", "appid": app, "side": side}])
        rec = diff.record(ex, pre)
        answer = None
        if resend is not None:
            c, cmd = resend
            n0 = len(rec.steps)
            diff.record(ex, [["send", "r-" + c, cmd]], rec)
            answer = [dict((k, v) for k, v in f.items() if k not in ("id", "orig")) for cc, f in rec.steps[n0]["frames"] if cc == "r-" + c]
            rec.steps.pop()
        n1 = len(rec.steps)
        diff.record(ex, suffix, rec)
        can = diff.Canon()
        fr = diff.canon_frames(rec, can, start=n1)
        for x in fr:
            x["i"] -= n1
        store = diff.canon_store(rec.final, can)
        acc.steps += ex.world.counters["steps"]
        acc.frames += ex.world.counters["frames"]
        return {"frames": fr, "store": store, "swept_at_startup": sorted(swept)}, answer
    finally:
        ex.close()
        rmtree(wd)


def analyse_history(acc, hist, cfg, seed, case, max_resume, rnd, others_p=1.0):
    database = load_db()
    root = new_workdir("c10")
    imager = Imager(os.path.join(root, "images"))
    ex = Exec(cfg, seed=seed, track=False)
    replay = {"kind": "crash", "cfg": cfg.to_json(), "seed": seed, "history": hist}
    try:
        ex.world.commit_hooks.append(imager)
        ex.start()
        w = ex.world
        binds_static = diff.conn_apps(hist)
        # per step: snapshot of what is needed to continue from there
        step_info = {}
        for hi, s in enumerate(hist):
            n_img = len(imager.images)
            n_steps = len(w.steps)
            alive_before = [c for c in w.alive_conns()]
            ex.step(s)
            new_imgs = imager.images[n_img:]
            if not new_imgs:
                continue
            last = w.steps[-1]
            ref_dir = os.path.join(root, "ref%d" % hi)
            imager.enabled = False
            copy_db_files(w.workdir, ref_dir)
            imager.enabled = True
            step_info[hi] = {"images": new_imgs, "ref": ref_dir, "t": w.now, "counters": dict(w.krandom.counters),
                             "alive": [c for c in alive_before if c in binds_static], "wstep": last,
                             "hist_step": s}
        acc.steps += w.counters["steps"]
        acc.frames += w.counters["frames"]
        acc.commits += w.counters["commits"]
        imager.enabled = False
        # deduplicate images by logical content
        seen = {}
        resumable = []
        for hi, info in step_info.items():
            for img in info["images"]:
                acc.ev["c10_crash_point"] += 1
                ls = logical_state(img["dir"])
                h = state_hash(ls)
                first = h not in seen
                if first:
                    seen[h] = img
                    acc.ev["c10_distinct_image"] += 1
                    icase = "%s@img%d" % (case, img["n"])
                    rp = dict(replay, image=img["n"])
                    if check_image_static(acc, database, img, ls, icase, rp):
                        nobody_returns(acc, img, cfg, seed, icase, rp)
                        # images strictly inside a multi-commit command are the interesting ones for other clients
                        mid_cmd = img is not info["images"][-1] and img is not info["images"][0]
                        if mid_cmd and not acc.nviol and rnd.random() < others_p:
                            others_return(acc, img, cfg, seed, icase + ":others", dict(rp, others=True), hi)
                s = info["hist_step"]
                if s[0] == "send" and isinstance(info["wstep"].msg, dict) and info["wstep"].msg.get("type") in RESUMABLE \
                        and info["wstep"].kind == "cmd" and s[1] in binds_static:
                    resumable.append((hi, img))
            if acc.nviol:
                break
        if len(resumable) > max_resume:
            resumable = rnd.sample(resumable, max_resume)
        refs = {}
        for hi, img in resumable:
            if acc.nviol:
                break
            info = step_info[hi]
            msg = info["wstep"].msg
            t = msg["type"]
            need = {"claim": "nameplate", "release": "nameplate", "open": "mailbox", "close": "mailbox"}[t]
            if need not in msg:
                acc.dontcare["c10_inflight_without_explicit_name"] += 1
                continue
            cmd = {"type": t, need: msg[need]}
            if t == "close" and "mood" in msg:
                cmd["mood"] = msg["mood"]
            c = info["hist_step"][1]
            binds = [(x, binds_static[x]) for x in info["alive"]]
            if c not in info["alive"]:
                continue
            g = Gen(seed * 7919 + hi, **dict(GEN, steps=22))
            g.nconn = 700
            suffix = g.gen()
            if hi not in refs:
                # `open` doubles as subscribe, which a restart always loses: there the reference client re-opens too
                refs[hi], _ = continuation(acc, info["ref"], info["t"], cfg, seed, info["counters"], binds,
                                           (c, cmd) if t == "open" else None, suffix)
            got, answer = continuation(acc, img["dir"], info["t"], cfg, seed, info["counters"], binds, (c, cmd), suffix)
            if refs[hi]["swept_at_startup"] != got["swept_at_startup"]:
                # the in-flight command would have refreshed a channel that the restart's immediate sweep finds expired:
                # an expiry race decided by the timer phase, not by stored state; the statement does not decide it
                acc.dontcare["c10_expiry_race_at_restart"] += 1
                continue
            acc.ev["c10_clients_resume"] += 1
            acc.ev["c10_resume_" + t] += 1
            orig_answer = [dict((k, v) for k, v in f.items() if k not in ("id", "orig")) for cc, f in info["wstep"].frames if cc == c]
            icase = "%s@img%d:resume" % (case, img["n"])
            rp = dict(replay, image=img["n"], resume=True)
            def key(fs):
                # a claim that crashed before anything was stored legitimately gets a new random id
                can = diff.Canon()
                for f in fs:
                    if f.get("type") == "claimed":
                        can.learn(f.get("mailbox"))
                return sorted(json.dumps(can.apply(f), sort_keys=True, default=str) for f in fs)
            if info["wstep"].exc is None and key(orig_answer) != key(answer):
                errs = [f.get("error") for f in answer if f.get("type") == "error"]
                ls = logical_state(img["dir"])["channel.sqlite"]
                nsides = sum(1 for r in ls["mailbox_sides"].values() if r["mailbox_id"] == cmd.get("mailbox"))
                if errs == ["crowded"] and (nsides >= 3 or t == "claim"):
                    acc.known.append({"id": "F7", "props": ["C05", "C14", "C10"], "step": hi,
                                      "detail": {"cmd": t, "sides_stored": nsides}, "replay": dict(rp, case=icase, property="C10")})
                    continue
                viol(acc, icase, "re-sent in-flight command is answered differently after a crash",
                     {"command": cmd, "without_crash": orig_answer, "after_crash": answer, "image": _img(img)}, rp)
                continue
            d = diff.first_difference(refs[hi], got)
            if d:
                viol(acc, icase, "clients resuming after a crash reach different answers / stored state",
                     {"command": cmd, "first_difference": d, "reference=left, crashed=right": True, "image": _img(img)}, rp)
        acc.cases += 1
        if seen:
            acc.distinct.add(hhash(hist))
        acc.extra["c10_images_total"] += len(imager.images)
        if len(acc.samples) < 2:
            acc.samples.append({"case": case, "images": len(imager.images), "distinct_states": len(seen),
                                "resumed": len(resumable), "history_head": hist[:12]})
    finally:
        ex.close()
        rmtree(root)


_db = []


def load_db():
    if not _db:
        from ..engine import load_server_modules
        _db.append(load_server_modules()[3])
    return _db[0]


def directed():
    from ..scenarios import HB, claimed
    out = []
    for usage in (True, False):
        for variant in range(6):
            b = HB()
            A = b.conn("app", "s1")
            b.send(A, type="claim", nameplate="4")
            b.send(A, type="open", mailbox=claimed(A))
            b.add(A, "pake")
            B = b.conn("app", "s2")
            b.send(B, type="claim", nameplate="4")
            b.send(B, type="open", mailbox=claimed(A))
            b.add(B, "pake")
            if variant & 1:
                b.send(A, type="release", nameplate="4")
                b.send(B, type="release", nameplate="4")
            b.send(A, type="close", mailbox=claimed(A), mood="happy")
            if variant & 2:
                b.drop(B)
                B2 = b.conn("app", "s2")
                b.send(B2, type="close", mailbox=claimed(A), mood="scary")
            else:
                b.send(B, type="close", mailbox=claimed(A), mood="happy")
            if variant & 4:
                C = b.conn("app2", "s1")
                b.send(C, type="open", mailbox="mK.1")
                b.add(C, "x")
                D = b.conn("app", "s3")
                b.send(D, type="allocate")
                b.h.append(["dropall"])
                b.adv(1300)          # sweeps delete two mailboxes in two apps
            out.append((b.h, Config(usage=usage)))
    return out


DIRECTED = directed()


def jobs(pid, tier, seed):
    out = [{"kind": "directed", "i": i} for i in range(len(DIRECTED))]
    n = 220 if tier == "quick" else 5000
    out += [{"kind": "random", "seed": seed * 1000003 + i, "max_resume": 10 if tier == "quick" else 40} for i in range(n)]
    out += [{"kind": "random", "seed": seed * 1000003 + 5000000 + i, "max_resume": 10 if tier == "quick" else 40, "life": 1} for i in range(n)]
    return out


def run_job(pid, job, acc):
    if job["kind"] == "directed":
        h, cfg = DIRECTED[job["i"]]
        analyse_history(acc, h, cfg, 0, "directed:%d" % job["i"], 1000, random.Random(0))
        return
    s = job["seed"]
    hist = generate(s, style=("life" if job.get("life") else None), **GEN)
    cfg = cfg_for(s)
    analyse_history(acc, hist, cfg, s, "random:%d" % s, job["max_resume"], random.Random(s), others_p=0.4)


def replay(pid, rep):
    acc = Acc(pid)
    analyse_history(acc, rep["history"], Config.from_json(rep["cfg"]), rep["seed"], rep.get("case", "replay").split("@")[0], 1000, random.Random(0))
    return acc
