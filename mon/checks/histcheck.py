"""Checks decided by the single-run oracles of the facts tracker over directed scenario
families (first) and random histories (second)."""
from .common import *
from .. import scenarios

PROFILES = {
    "C01": dict(gen=dict(napps=2, nsides=3, steps=70), keys=("c01_replay_nonempty",)),
    "C02": dict(gen=dict(napps=2, nsides=2, steps=70, max_conns=7), keys=("c02_fanout_subscribed",)),
    "C03": dict(gen=dict(napps=3, nsides=3, steps=60, names=["1", "2", "7", "x"]), keys=("c03_same_id", "c03_first_claim")),
    "C05": dict(gen=dict(napps=1, nsides=5, steps=70, names=["1", "7"]), keys=("c05_third_open", "c05_third_claim", "c05_third_close")),
    "C07": dict(gen=dict(napps=2, nsides=3, steps=70), keys=("c07_survives_others_hold", "c07_gone_after_last_release")),
    "C08": dict(gen=dict(napps=2, nsides=2, steps=70), keys=("c08_survives_other_open", "c08_deleted_after_last_close")),
    "C12": dict(gen=dict(napps=2, nsides=3, steps=60), keys=("c12_must_survive",)),
    "C15": dict(gen=dict(napps=2, nsides=4, steps=70), keys=("c15_classified_mailbox", "c15_classified_nameplate"), usage_only=True),
    "C17": dict(gen=dict(napps=2, nsides=3, steps=70, p_illegal=0.35, hostile=True),
                keys=("rejected_cmd",)),
    "C16": dict(gen=dict(napps=2, nsides=3, steps=60), keys=("c16_blur_bind", "c16_blur_mailbox-close"), blur_only=True),
}

N_RANDOM = {"quick": 3000, "thorough": 60000}

BLUR_CONFIGS = [Config(usage=True, blur=b, allow_list=(i % 2 == 0)) for i, b in enumerate([1, 7, 60, 61, 97, 3600, 86400])]
USAGE_CONFIGS = [c for c in CONFIGS if c.usage]


def jobs(pid, tier, seed):
    out = []
    for name, params in scenarios.directed_for(pid, tier):
        out.append({"kind": "directed", "name": name, "params": params})
    n = N_RANDOM[tier]
    for i in range(n):
        out.append({"kind": "random", "seed": seed * 1000003 + i})
    return out


def configs_for(pid):
    p = PROFILES[pid]
    if p.get("blur_only"):
        return BLUR_CONFIGS
    if p.get("usage_only"):
        return USAGE_CONFIGS
    return CONFIGS


def run_job(pid, job, acc):
    p = PROFILES[pid]
    if job["kind"] == "random":
        s = job["seed"]
        hist = generate(s, **p["gen"])
        cfg = cfg_for(s, configs_for(pid))
        run_hist(acc, hist, cfg, s, "random:%d" % s, nontrivial_keys=p["keys"],
                 keep_sample=(len(acc.samples) < 1))
    else:
        for case, hist, cfg, opts in scenarios.build(pid, job["name"], job["params"]):
            run_hist(acc, hist, cfg, 0, case, nontrivial_keys=p["keys"], keep_sample=(len(acc.samples) < 2), **opts)


def replay(pid, rep):
    return replay_history(rep, pid)
