"""Checks decided by the single-run oracles of the facts tracker over directed scenario
families (first) and random histories (second)."""
from .common import *
from .. import scenarios
from ..model import EXPIRY, PERIOD

PROFILES = {
    "C01": dict(gen=dict(napps=2, nsides=3, steps=70), keys=("c01_replay_nonempty",)),
    "C02": dict(gen=dict(napps=2, nsides=2, steps=70, max_conns=7), keys=("c02_fanout_subscribed",)),
    "C03": dict(gen=dict(napps=3, nsides=3, steps=60, names=["1", "2", "7", "x", " 7", "7 ", "X", "07"]), keys=("c03_same_id", "c03_first_claim")),
    "C05": dict(gen=dict(napps=1, nsides=5, steps=70, names=["1", "7"]), keys=("c05_third_open", "c05_third_claim", "c05_third_close")),
    "C07": dict(gen=dict(napps=2, nsides=3, steps=70), keys=("c07_survives_others_hold", "c07_gone_after_last_release")),
    "C08": dict(gen=dict(napps=2, nsides=2, steps=70), keys=("c08_survives_other_open", "c08_deleted_after_last_close")),
    "C12": dict(gen=dict(napps=2, nsides=3, steps=60), keys=("c12_must_survive",)),
    "C15": dict(gen=dict(napps=2, nsides=4, steps=70), keys=("c15_classified_mailbox", "c15_classified_nameplate"), usage_only=True),
    "C17": dict(gen=dict(napps=2, nsides=3, steps=70, p_illegal=0.35, hostile=True, empty_side=True),
                keys=("rejected_cmd",)),
    "C16": dict(gen=dict(napps=2, nsides=3, steps=60, switch_blur=[1, 7, 60, 61, 3600, 86400]), keys=("c16_blur_bind", "c16_blur_mailbox-close"), blur_only=True),
}

N_RANDOM = {"quick": 3000, "thorough": 60000}
N_LIFE = {"quick": 8000, "thorough": 80000}
LIFE_PIDS = ("C01", "C02", "C03", "C05", "C07", "C08", "C12", "C15", "C16", "C17")

BLUR_CONFIGS = [Config(usage=True, blur=b, allow_list=(i % 2 == 0)) for i, b in enumerate([1, 7, 60, 61, 97, 3600, 86400])]
USAGE_CONFIGS = [c for c in CONFIGS if c.usage]
# C17: every combination of the three configured welcome notices (present / absent), some with non-ASCII text
WELCOME_CONFIGS = [Config(usage=bool(i % 2), blur=[None, 60][i % 3 == 0], allow_list=bool(i % 4 < 3),
                          motd=["hello", "m\u00f6td \u2603 \"quoted\""][(i >> 1) & 1] if i & 1 else None,
                          advertise=["1.2.3", "0.0.0-\u00fc"][(i >> 2) & 1] if i & 2 else None,
                          signal_error=["go away", "\u00e9rreur: 100%"][i & 1] if i & 4 else None)
                   for i in range(8)] + [Config(usage=False, motd="", advertise=None, signal_error=None)]


def jobs(pid, tier, seed):
    out = []
    for name, params in scenarios.directed_for(pid, tier):
        out.append({"kind": "directed", "name": name, "params": params})
    if pid == "C15":
        out.append({"kind": "classifier"})
    if pid == "C16":
        out += [{"kind": "crashimg", "seed": seed * 1000 + i} for i in range(16 if tier == "quick" else 200)]
    if pid in ("C01", "C02", "C03", "C05", "C07", "C08"):
        # database files with content, written by the reference tree (mon/fixtures.py)
        from ..fixtures import SPECS
        out += [{"kind": "fixture", "name": nm, "seed": seed * 1000 + i} for nm in sorted(SPECS) for i in range(12 if tier == "quick" else 200)]
    if pid in ("C07", "C18"):
        out += [{"kind": "bulk_list", "n": n, "allow_list": a} for n in (1010, 1200) for a in (1, 0)]
    if pid in ("C12", "C02", "C01"):
        out += [{"kind": "bulk_subscribed", "n": 1100, "usage": u} for u in ((0, 1) if pid == "C12" else (0,))]
    if pid in ("C01", "C05", "C15", "C16"):
        out += [{"kind": "bulk_expire", "n": 560, "blur": b} for b in ((None, 60) if pid in ("C15", "C01") else (60,) if pid == "C16" else (None,))]
    if pid in ("C01", "C02"):
        out += [{"kind": "lazy", "n": n} for n in (0, 1, 2, 99, 100, 101, 250, 520)]
        out += [{"kind": "lazy", "pipeline": k} for k in ("adds-drop", "adds-closing", "open-close",
                                                          "adds-drop-burst", "adds-closing-burst", "open-close-burst")]
        out += [{"kind": "lazy", "seed": seed * 1000003 + 700000 + i} for i in range(200 if tier == "quick" else 4000)]
    if pid in ("C02", "C17"):
        # the real process over real TCP: an add processed while a subscriber's closing handshake is under way
        orders = [("A", "B", "C"), ("B", "A", "C"), ("C", "B", "A"), ("A", "B")]
        reps = 1 if tier == "quick" else 12
        out += [{"kind": "wire_closing", "order": list(o), "usage": (i + k) % 2, "adds": 1 + (i + k) % 3}
                for k in range(reps) for i, o in enumerate(orders)]
        out += [{"kind": "wire_transport", "variant": v, "usage": i % 2}
                for i, v in enumerate(("bigframe", "pipelined", "dribble", "http-first", "idle-unbound"))]
    n = N_RANDOM[tier]
    for i in range(n):
        job = {"kind": "random", "seed": seed * 1000003 + i}
        if tier == "thorough" and i % 4 == 1:
            job["long"] = 3        # every fourth history of the thorough tier is three times as long
        out.append(job)
    if pid in LIFE_PIDS:
        # channel life cycles (mon/lifegen.py): few identifiers, returning sides, lingering connections, time windows;
        # interleaved with the uniform histories so that a time budget cuts both kinds alike
        life = [{"kind": "random", "seed": seed * 1000003 + 5000000 + i, "life": 1} for i in range(N_LIFE[tier])]
        head = [j for j in out if j["kind"] != "random"]
        rnd = [j for j in out if j["kind"] == "random"]
        mixed = []
        k = max(1, len(life) // max(1, len(rnd)))
        li = iter(life)
        for j in rnd:
            mixed.append(j)
            for _ in range(k):
                x = next(li, None)
                if x is not None:
                    mixed.append(x)
        mixed += list(li)
        out = head + mixed
    return out


def configs_for(pid):
    p = PROFILES[pid]
    if p.get("blur_only"):
        return BLUR_CONFIGS
    if p.get("usage_only"):
        return USAGE_CONFIGS
    if pid == "C17":
        return WELCOME_CONFIGS
    return CONFIGS


MOODS8 = ["<missing>", None, "", "happy", "lonely", "scary", "errory", "unknown"]


def run_classifier_product(acc):
    """C15, exhaustive part: the real _summarize_mailbox / _summarize_nameplate_usage on the full product
    of 1-4 sides x 8 moods per side x pruned x blur against the independent classifier."""
    import itertools
    from ..engine import load_server_modules
    from ..facts_mbox import classify_mailbox, classify_nameplate
    server_mod, _, _, database = load_server_modules()
    for blur in (None, 60):
        db = database.create_channel_db(":memory:")
        srv = server_mod.make_server(db, blur_usage=blur)
        app = srv.get_app("a")
        for nsides in (1, 2, 3, 4):
            times = [1000.125 + 7.5 * i for i in range(nsides)]
            for moods in itertools.product(MOODS8, repeat=nsides):
                for pruned in (False, True):
                    rows = []
                    for i, m in enumerate(moods):
                        r = {"side": "s%d" % i, "added": times[nsides - 1 - i], "opened": False}
                        if m != "<missing>":
                            r["mood"] = m
                        rows.append(r)
                    when = 2000.5
                    u = app._summarize_mailbox(rows, when, pruned)
                    first = min(times)
                    exp_started = blur * (first // blur) if blur else first
                    exp = (exp_started, (sorted(times)[1] - first) if nsides > 1 else None, when - first,
                           classify_mailbox(nsides, [m for m in moods if m not in ("<missing>", None, "")], pruned))
                    got = (u.started, u.waiting_time, u.total_time, u.result)
                    acc.ev["c15_classifier_case"] += 1
                    if got != exp:
                        acc.add_violation({"property": "C15", "kind": "classifier", "case": "classifier",
                                           "violation": {"props": ["C15"], "kind": "mailbox classification/timing differs from the documented rule",
                                                         "detail": {"moods": list(moods), "pruned": pruned, "blur": blur, "got": got, "expected": exp}}})
                        return
            for pruned in (False, True):
                rows = [{"side": "s%d" % i, "added": times[i], "claimed": bool(i % 2)} for i in range(nsides)]
                u = app._summarize_nameplate_usage(rows, 2000.5, pruned)
                first = min(times)
                exp = (blur * (first // blur) if blur else first, (sorted(times)[1] - first) if nsides > 1 else None,
                       2000.5 - first, classify_nameplate(nsides, pruned))
                got = (u.started, u.waiting_time, u.total_time, u.result)
                acc.ev["c15_classifier_case"] += 1
                if got != exp:
                    acc.add_violation({"property": "C15", "kind": "classifier", "case": "classifier",
                                       "violation": {"props": ["C15"], "kind": "nameplate classification/timing differs from the documented rule",
                                                     "detail": {"nsides": nsides, "pruned": pruned, "blur": blur, "got": got, "expected": exp}}})
                    return
    acc.cases += 1
    acc.distinct.add("classifier-product")


def run_c16_crash_images(acc, seed):
    """C16 on crash images: records written by the sweep of a restarted server for objects left behind by a
    crash at any commit boundary (e.g. a mailbox without side rows) must be blurred like any other."""
    import random, os
    from .c10 import Imager, copy_db_files
    from ..engine import new_workdir, rmtree
    from ..scenarios import HB, claimed
    r = random.Random(seed)
    blur = r.choice([7, 61, 300, 3600])
    cfg = Config(usage=True, blur=blur)
    b = HB()
    b.adv(r.choice([1123.75, 7.125, 3599.875, 86399.5]))
    for app in ("app", "app2"):
        A = b.conn(app, "s1")
        b.send(A, type="claim", nameplate="4")
        b.adv(2.375)
        B = b.conn(app, "s2")
        b.send(B, type="allocate")
        b.send(B, type="open", mailbox="mS." + app)
        b.send(B, type="add", phase="p", body="c16-" + app)
        b.send(A, type="release")
        b.send(B, type="close", mood="happy")
    root = new_workdir("c16i")
    imager = Imager(os.path.join(root, "images"))
    ex = Exec(cfg, seed=seed, track=False)
    try:
        ex.world.commit_hooks.append(imager)
        ex.run(b.h)
        imager.enabled = False
    finally:
        ex.close()
    try:
        for img in imager.images:
            wd = new_workdir("c16r")
            copy_db_files(img["dir"], wd)
            ex2 = Exec(cfg, seed=seed, workdir=wd, t0=img["t"])
            try:
                ex2.start()
                ex2.world.advance(1300.5)
                base = {"property": "C16", "kind": "crashimg", "cfg": cfg.to_json(), "seed": seed, "case": "crashimg:%d@%d" % (seed, img["n"]),
                        "history": b.h}
                acc.cases += 1
                acc.ev["c16_crash_image_swept"] += 1
                acc.absorb_tracker(ex2.tracker, ex2.world, "crashimg:%d:%d" % (seed, img["n"]), base, ("c16_blur_pruned_row",))
            finally:
                ex2.close()
                rmtree(wd)
    finally:
        rmtree(root)


def run_wire_closing(pid, job, acc):
    import tempfile, shutil
    from .. import wire
    wd = tempfile.mkdtemp(prefix="verif-wirec-", dir=new_workdir_root())
    try:
        if job["kind"] == "wire_transport":
            problems, observed = wire.transport_case(wd, Config(usage=bool(job["usage"])), job["variant"])
        else:
            problems, observed = wire.closing_handshake_case(wd, Config(usage=bool(job["usage"])), tuple(job["order"]), job["adds"])
    finally:
        shutil.rmtree(wd, ignore_errors=True)
    acc.cases += 1
    if job["kind"] == "wire_transport":
        acc.ev["wire_transport_case"] += 1
        acc.distinct.add("wire_transport:%s" % sorted(job.items()))
        if problems:
            acc.add_violation({"property": pid, "kind": "wire_closing", "case": "wire_transport:%s" % sorted(job.items()), "job": job,
                               "violation": {"props": ["C02", "C17"], "kind": "real transport: %s" % job["variant"],
                                             "detail": {"problems": problems, "observed": observed}, "step": None}})
        return
    acc.ev["wire_closing_case"] += 1
    acc.distinct.add("wire_closing:%s" % sorted(job.items()))
    if problems:
        acc.add_violation({"property": pid, "kind": "wire_closing", "case": "wire_closing:%s" % sorted(job.items()), "job": job,
                           "violation": {"props": ["C02", "C17"], "kind": "add during another subscriber's closing handshake (real process, TCP)",
                                         "detail": {"problems": problems, "observed": observed}, "step": None}})


class DupMonitor(object):
    """Exactly-once, the "at most once" half, independent of *when* the server sends: no connection is ever sent the
    same message (side, phase, body, id, server_rx; bodies are unique per add) twice.  Used in lazy-pump runs, where
    work the server defers to a later reactor turn runs only after the next command has been processed."""
    def __init__(self):
        from collections import Counter
        self.seen = {}
        self.dups = []
        self.C = Counter

    def on_begin(self, world, st):
        pass

    def on_step(self, world, st):
        pass

    def on_frame(self, world, st, conn, frame):
        if frame.get("type") == "closed":
            self.closed_conns = getattr(self, "closed_conns", set()) | {conn}
        if frame.get("type") != "message":
            return
        if conn in getattr(self, "closed_conns", ()):
            self.dups.append({"conn": conn, "message_after_closed": frame.get("body"), "step": st.i if st is not None else None})
        k = (frame.get("side"), frame.get("phase"), frame.get("body"), frame.get("id"), frame.get("server_rx"))
        c = self.seen.setdefault(conn, self.C())
        c[k] += 1
        if c[k] == 2:
            self.dups.append({"conn": conn, "message": list(k), "step": st.i if st is not None else None})


def run_lazy(pid, job, acc):
    """Histories executed with deferred work (reactor.callLater) run one command late."""
    from ..scenarios import HB
    expect_replay = None
    if job.get("pipeline") is not None:
        # one client sends several commands back to back (one TCP segment) and goes away at once; whatever the server
        # postpones to later reactor turns, every acknowledged add is stored and replayed, and a connection that was
        # told `closed` gets nothing more
        b = HB()
        b.tag = "pl"
        y = b.conn("app", "s2")
        b.send(y, type="open", mailbox="pl")
        x = b.conn()
        burst = job["pipeline"].endswith("-burst")
        kind = job["pipeline"].replace("-burst", "")
        if burst:
            b.h.append(["hold"])        # everything up to "turns"/"unhold" arrives in one segment: one reactor turn
        b.send(x, type="bind", appid="app", side="s1")
        b.send(x, type="open", mailbox="pl")
        bodies = []
        if kind in ("adds-drop", "adds-closing"):
            for i in range(3):
                bodies.append(b.add(x, "p%d" % i, id="i%d" % i))
            if kind == "adds-closing":
                b.h.append(["closing", x])      # the Close frame is in the same segment
            if burst:
                b.h.append(["turns", 1])        # one turn passes before the loss of the connection is seen
            b.drop(x)
            if burst:
                b.h.append(["unhold"])
            b.send(y, type="ping", ping=1)
        else:
            b.send(x, type="close", mood="happy")
            if burst:
                b.h.append(["unhold"])
            bodies.append(b.add(y, "after-close"))
            b.send(y, type="ping", ping=1)
            bodies.append(b.add(y, "after-close2"))
            b.drop(x)
        z = b.conn("app", "s1")
        b.send(z, type="open", mailbox="pl")
        b.send(z, type="ping", ping=2)
        expect_replay = (z, bodies)
        hist, seed, case = b.h, 0, "lazy:pipeline=%s" % job["pipeline"]
        cfg = Config(usage=False)
    elif job.get("n") is not None:
        b = HB()
        b.tag = "lz"
        a = b.conn("app", "s1")
        b.send(a, type="open", mailbox="lz")
        for i in range(job["n"]):
            b.add(a, "%d" % i)
        y = b.conn("app", "s2")
        b.send(y, type="open", mailbox="lz")
        b.drop(a)
        x = b.conn("app", "s1")
        b.send(x, type="open", mailbox="lz")
        b.add(y, "live1")
        b.add(y, "live2")
        b.send(x, type="ping", ping=1)
        b.add(x, "live3")
        b.send(y, type="ping", ping=2)
        b.send(x, type="ping", ping=3)
        hist, seed, case = b.h, job["n"], "lazy:n=%d" % job["n"]
        cfg = Config(usage=bool(job["n"] % 2))
    else:
        seed = job["seed"]
        prof = PROFILES["C08" if pid == "C13" else pid]["gen"]
        hist = generate(seed, **dict(prof, closings=False, restarts=(pid != "C13")))
        cfg = cfg_for(seed)
        case = "lazy:%d" % seed
    mon = DupMonitor()
    ex = Exec(cfg, seed=seed, track=False, monitors=[mon])
    try:
        ex.world.pump_mode = "lazy"
        ex.run(hist)
        for _ in range(3):
            ex.world._pump()
        acc.cases += 1
        acc.ev["lazy_history"] += 1
        acc.ev["lazy_message_frames"] += sum(sum(c.values()) for c in mon.seen.values())
        acc.extra["deferred_calls_run"] += ex.world.counters["deferred_calls_run"]
        acc.steps += ex.world.counters["steps"]
        acc.frames += ex.world.counters["frames"]
        acc.distinct.add(hhash(hist))
        excs = [s.brief() for s in ex.world.steps if s.exc and s.kind == "turn"]
        if pid == "C13":
            # timing-independent: everybody leaves, expiry + 2 periods pass, the store holds nothing
            from ..model import EXPIRY, PERIOD
            w = ex.world
            for n in w.alive_conns():
                w.drop(n)
            w._pump()
            w.advance(EXPIRY + 2 * PERIOD + 1)
            left = {t: len(r) for t, r in w.dump().items() if r}
            acc.ev["c13_empty_at_quiescence"] += 1
            acc.ev["c13_lazy_quiescence"] += 1
            if left:
                mon.dups.append({"store_not_empty_after_quiescence": left})
        if expect_replay is not None:
            zc, bodies = expect_replay
            got = [k[2] for k in mon.seen.get(zc, {})]
            missing = [x for x in bodies if x not in got]
            acc.ev["lazy_pipeline_replay_checked"] += 1
            if missing:
                mon.dups.append({"acknowledged_adds_missing_from_a_later_replay": missing, "replayed": got})
        if mon.dups or excs:
            acc.add_violation({"property": pid, "kind": "lazy", "case": case, "job": job, "cfg": cfg.to_json(), "seed": seed, "history": hist,
                               "violation": {"props": ["C02", "C01", "C13"], "kind": "exactly-once broken when deferred work runs one command late (duplicate, message after `closed`, or acknowledged add lost)"
                                             if mon.dups else "deferred work failed", "detail": {"duplicates": mon.dups[:3], "failures": excs[:2]}, "step": None}})
    finally:
        ex.close()


def run_bulk_list(pid, job, acc):
    """More than a thousand live nameplates in one app (and a few in another): `list` names exactly the live ones of
    the caller's app, each once (or nothing when listing is disallowed), before and after some are released."""
    from ..engine import World, new_workdir, rmtree
    cfg = Config(usage=False, allow_list=bool(job["allow_list"]))
    wd = new_workdir("bulk")
    w = World(wd, cfg, seed=job["n"], dump_every_step=False)
    case = "bulk_list:%s" % sorted(job.items())
    try:
        w.start()
        held = []
        for i in range(job["n"]):
            c = w.connect()
            app = "app" if i % 50 else "app2"
            name = "%05d" % i if i % 3 else "b%04d" % i
            w.send(c.name, {"type": "bind", "appid": app, "side": "s%d" % (i % 2)})
            w.send(c.name, {"type": "claim", "nameplate": name})
            if app == "app":
                held.append((c.name, name))
            w.drop(c.name)
        problems = []

        def listed(app):
            c = w.connect()
            w.send(c.name, {"type": "bind", "appid": app, "side": "lister"})
            st = w.send(c.name, {"type": "list"})
            fr = [f for cn, f in st.frames if f.get("type") == "nameplates"]
            w.drop(c.name)
            if len(fr) != 1:
                problems.append("list not answered by one nameplates frame: %r" % [f.get("type") for _, f in st.frames])
                return []
            return [x.get("id") for x in fr[0]["nameplates"]]

        def stored(app):
            return sorted(r["name"] for r in w.dump()["nameplates"].values() if r["app_id"] == app)

        for round_ in range(2):
            got = listed("app")
            exp = stored("app") if cfg.allow_list else []
            acc.ev["list_answer"] += 1
            acc.ev["bulk_list_names_compared"] += len(exp)
            if sorted(got) != exp:
                problems.append("list names %d nameplates, %d are live (missing e.g. %r, extra e.g. %r)"
                                % (len(got), len(exp), sorted(set(exp) - set(got))[:3], sorted(set(got) - set(exp))[:3]))
            if round_ == 0:
                if len(stored("app")) != len(held):
                    problems.append("stored nameplates %d, held %d" % (len(stored("app")), len(held)))
                for (cn, name) in held[::97]:
                    c = w.connect()
                    w.send(c.name, {"type": "bind", "appid": "app", "side": "s%d" % (int(name[1:]) % 2)})
                    w.send(c.name, {"type": "release", "nameplate": name})
                    w.drop(c.name)
        acc.cases += 1
        acc.distinct.add(case)
        acc.steps += w.counters["steps"]
        acc.frames += w.counters["frames"]
        if problems:
            acc.add_violation({"property": pid, "kind": "bulk_list", "case": case, "job": job,
                               "violation": {"props": ["C07", "C18"], "kind": "list with more than a thousand live nameplates",
                                             "detail": {"problems": problems[:4]}, "step": None}})
    finally:
        w.close()
        rmtree(wd)


def run_bulk_subscribed(pid, job, acc):
    """More than a thousand mailboxes of one app (and some of another), each with a connected subscriber and a
    stored message, sit through four sweeps: none may lose anything (C12); afterwards a second side joins a sample
    of them and its message reaches the first subscriber exactly once (C02), and the stored message is replayed (C01)."""
    from ..engine import World, new_workdir, rmtree
    cfg = Config(usage=bool(job.get("usage")))
    wd = new_workdir("bsub")
    w = World(wd, cfg, seed=job["n"], dump_every_step=False)
    case = "bulk_subscribed:%s" % sorted(job.items())
    problems = []
    try:
        w.start()
        subs = []
        for i in range(job["n"]):
            c = w.connect()
            app = "app" if i % 40 else "app2"
            w.send(c.name, {"type": "bind", "appid": app, "side": "s1"})
            w.send(c.name, {"type": "open", "mailbox": "mb%d" % i})
            w.send(c.name, {"type": "add", "phase": "p", "body": "first-%d" % i})
            subs.append((c.name, app, "mb%d" % i, i))
        before = {t: len(r) for t, r in w.dump().items()}
        w.advance(4 * PERIOD + 1)
        after = {t: len(r) for t, r in w.dump().items()}
        acc.ev["c12_must_survive"] += job["n"]
        acc.ev["c12_must_survive_subscribed"] += job["n"]
        acc.ev["bulk_subscribed_mailboxes"] += job["n"]
        if before.get("mailboxes", 0) != job["n"]:
            acc.errors.append("bulk_subscribed: %r stored before the sweeps" % before)
        if after != before:
            have = {r["id"] for r in w.dump()["mailboxes"].values()}
            lost = [m for _, _, m, _ in subs if m not in have]
            problems.append(("C12", "sweeps removed rows of subscribed mailboxes", {"before": before, "after": after, "lost_e.g.": lost[:5],
                                                                                   "positions": [int(x[2:]) for x in lost[:5]]}))
        idx = sorted(set([0, 1, 2, 497, 498, 499, 500, 501, 997, 998, 999, 1000, 1001, job["n"] - 1] + list(range(3, job["n"], 97))))
        for i in idx:
            if i >= job["n"]:
                continue
            cn, app, mid, _ = subs[i]
            p = w.connect()
            w.send(p.name, {"type": "bind", "appid": app, "side": "s2"})
            st = w.send(p.name, {"type": "open", "mailbox": mid})
            replay = [f.get("body") for c2, f in st.frames if c2 == p.name and f.get("type") == "message"]
            acc.ev["c01_replay_nonempty"] += 1
            if replay != ["first-%d" % i]:
                problems.append(("C01", "second side of a long-subscribed mailbox is not replayed its stored message",
                                 {"mailbox": mid, "replay": replay[:3]}))
            st = w.send(p.name, {"type": "add", "phase": "q", "body": "second-%d" % i})
            got = [c2 for c2, f in st.frames if f.get("type") == "message" and f.get("body") == "second-%d" % i]
            acc.ev["c02_fanout_subscribed"] += 1
            if sorted(got) != sorted([cn, p.name]):
                problems.append(("C02", "message added to a long-subscribed mailbox not delivered once to each subscriber",
                                 {"mailbox": mid, "delivered_to": got, "expected": [cn, p.name]}))
            w.drop(p.name)
        acc.cases += 1
        acc.distinct.add(case)
        acc.steps += w.counters["steps"]
        acc.frames += w.counters["frames"]
        mine = [x for x in problems if x[0] == pid] or ([x for x in problems if x[0] == "C12"] if pid in ("C01", "C02") else [])
        if mine:
            acc.add_violation({"property": pid, "kind": "bulk_subscribed", "case": case, "job": job,
                               "violation": {"props": sorted({x[0] for x in problems}), "kind": mine[0][1], "detail": mine[0][2], "step": None}})
    finally:
        w.close()
        rmtree(wd)


def run_bulk_expire(pid, job, acc):
    """More than five hundred mailboxes of one app (and some of another), each with two sides and stored messages,
    are abandoned at known times and expire in one sweep: nothing of them is left (C13), each gets exactly one usage
    record whose start is the (blurred) time its first side arrived (C15, C16), and every id opened again starts empty
    and admits two new sides (C01, C05)."""
    from ..engine import World, new_workdir, rmtree
    blur = job.get("blur")
    cfg = Config(usage=True, blur=blur)
    wd = new_workdir("bexp")
    w = World(wd, cfg, seed=job["n"], dump_every_step=False)
    case = "bulk_expire:%s" % sorted(job.items())
    problems = []
    try:
        w.start()
        t_first = {}
        for i in range(job["n"]):
            app = "app" if i % 40 else "app2"
            mid = "mx%d" % i
            a = w.connect()
            w.send(a.name, {"type": "bind", "appid": app, "side": "s1"})
            w.send(a.name, {"type": "open", "mailbox": mid})
            t_first[(app, mid)] = w.now
            w.send(a.name, {"type": "add", "phase": "p", "body": "old-%d" % i})
            if i % 3 == 0:
                w.advance(0.25)
            b = w.connect()
            w.send(b.name, {"type": "bind", "appid": app, "side": "s2"})
            w.send(b.name, {"type": "open", "mailbox": mid})
            w.send(b.name, {"type": "add", "phase": "q", "body": "old2-%d" % i})
            w.drop(a.name)
            w.drop(b.name)
            if i % 7 == 0:
                w.advance(0.5)
        n0 = len(w.dump()["mailboxes"])
        u0 = len(w.udump()["mailboxes"])
        if n0 != job["n"]:
            acc.errors.append("bulk_expire: %d mailboxes stored before the sweep" % n0)
        w.advance(EXPIRY + PERIOD + 1)
        left = {t: len(r) for t, r in w.dump().items() if r}
        acc.ev["c13_empty_at_quiescence"] += 1
        if left:
            problems.append(("C13", "idle channels left after expiry plus one period (many mailboxes at once)", {"left": left}))
        recs = [r for r in w.udump()["mailboxes"].values()][u0:]
        acc.ev["c15_conservation_mailbox"] += job["n"]
        if len(recs) != job["n"]:
            problems.append(("C15", "usage records written for expired mailboxes: %d, mailboxes expired: %d" % (len(recs), job["n"]), {}))
        else:
            from collections import Counter as _C
            exp = _C()
            for (app, mid), t in t_first.items():
                st_ = t
                if blur:
                    st_ = blur * (st_ // blur)
                exp[(app, int(st_) if st_ == int(st_) else st_, "pruney")] += 1
            got = _C((r["app_id"], r["started"], r["result"]) for r in recs)
            acc.ev["c15_classified_mailbox"] += job["n"]
            acc.ev["c16_blur_mailbox-pruned"] += job["n"] if blur else 0
            if got != exp:
                miss = list((exp - got).items())[:3]
                extra = list((got - exp).items())[:3]
                problems.append(("C15" if not blur else "C16", "usage records of many mailboxes expired in one sweep differ from the facts (app, started, result)",
                                 {"expected_not_found": miss, "found_not_expected": extra, "blur": blur}))
        # every id gets its second life (what the sweep left behind decides nothing here: the clients do)
        for i in range(job["n"]):
            app = "app" if i % 40 else "app2"
            seen = []
            for side in ("s3", "s4"):
                c = w.connect()
                w.send(c.name, {"type": "bind", "appid": app, "side": side})
                st = w.send(c.name, {"type": "open", "mailbox": "mx%d" % i})
                seen += [f.get("body") for c2, f in st.frames if f.get("type") == "message"]
                if any(f.get("type") == "error" for c2, f in st.frames):
                    problems.append(("C05", "a new side of an id whose previous life expired is refused", {"mailbox": "mx%d" % i, "frames": repr(st.frames)[:200]}))
            acc.ev["c01_replay_after_deletion_empty"] += 1
            if seen:
                problems.append(("C01", "an id whose previous life expired does not start empty", {"mailbox": "mx%d" % i, "replayed": seen[:4]}))
        acc.cases += 1
        acc.distinct.add(case)
        acc.steps += w.counters["steps"]
        acc.frames += w.counters["frames"]
        own = {"C05": ("C05", "C01"), "C16": ("C16", "C15"), "C15": ("C15", "C16")}.get(pid, (pid,))
        mine = [x for x in problems if x[0] in own]
        if mine:
            acc.add_violation({"property": pid, "kind": "bulk_expire", "case": case, "job": job,
                               "violation": {"props": sorted({x[0] for x in problems}), "kind": mine[0][1], "detail": mine[0][2], "step": None}})
    finally:
        w.close()
        rmtree(wd)


def run_fixture(pid, job, acc):
    from .. import fixtures, diff
    recA, recB, cont, cnt = fixtures.run_pair(job["name"], job["seed"])
    acc.steps += cnt["steps"]
    acc.frames += cnt["frames"]
    acc.cases += 1
    acc.ev["fixture_pair"] += 1
    acc.distinct.add("fixture:%s:%d" % (job["name"], job["seed"]))
    a, b = fixtures.projection(pid, recA, cont), fixtures.projection(pid, recB, cont)
    acc.ev["fixture_projection_entries"] += len(a["steps"])
    d = diff.first_difference(a, b)
    if d:
        acc.add_violation({"property": pid, "kind": "fixture", "case": "fixture:%s:%d" % (job["name"], job["seed"]), "job": job,
                           "violation": {"props": [pid], "kind": "behaviour on database files written by the reference tree differs from behaviour on files this tree wrote itself (same prefix history, same continuation)",
                                         "detail": {"fixture": job["name"], "first_difference": d, "left=own files, right=reference files": True}, "step": None}})


def new_workdir_root():
    from ..engine import scratch_root
    return scratch_root()


def run_job(pid, job, acc):
    if job["kind"] in ("wire_closing", "wire_transport"):
        return run_wire_closing(pid, job, acc)
    if job["kind"] == "lazy":
        return run_lazy(pid, job, acc)
    if job["kind"] == "bulk_list":
        return run_bulk_list(pid, job, acc)
    if job["kind"] == "fixture":
        return run_fixture(pid, job, acc)
    if job["kind"] == "bulk_subscribed":
        return run_bulk_subscribed(pid, job, acc)
    if job["kind"] == "bulk_expire":
        return run_bulk_expire(pid, job, acc)
    if job["kind"] == "classifier":
        return run_classifier_product(acc)
    if job["kind"] == "crashimg":
        return run_c16_crash_images(acc, job["seed"])
    p = PROFILES[pid]
    if job["kind"] == "random":
        s = job["seed"]
        g = dict(p["gen"])
        if job.get("long"):
            g["steps"] = g.get("steps", 60) * job["long"]
            g["max_conns"] = g.get("max_conns", 6) + 3
        if job.get("life") and s % 5 == 2:
            g["jumps"] = True
        hist = generate(s, style=("life" if job.get("life") else None), **g)
        cfg = cfg_for(s, configs_for(pid))
        run_hist(acc, hist, cfg, s, ("life:%d" if job.get("life") else "random:%d") % s, nontrivial_keys=p["keys"],
                 keep_sample=(len(acc.samples) < 1))
    else:
        for case, hist, cfg, opts in scenarios.build(pid, job["name"], job["params"]):
            run_hist(acc, hist, cfg, 0, case, nontrivial_keys=p["keys"], keep_sample=(len(acc.samples) < 2), **opts)


def replay(pid, rep):
    if rep.get("kind") == "wire_closing":
        acc = Acc(pid)
        run_wire_closing(pid, rep["job"], acc)
        return acc
    if rep.get("kind") == "lazy":
        acc = Acc(pid)
        run_lazy(pid, rep["job"], acc)
        return acc
    if rep.get("kind") == "bulk_list":
        acc = Acc(pid)
        run_bulk_list(pid, rep["job"], acc)
        return acc
    if rep.get("kind") == "fixture":
        acc = Acc(pid)
        run_fixture(pid, rep["job"], acc)
        return acc
    if rep.get("kind") in ("bulk_subscribed", "bulk_expire"):
        acc = Acc(pid)
        (run_bulk_subscribed if rep["kind"] == "bulk_subscribed" else run_bulk_expire)(pid, rep["job"], acc)
        return acc
    if rep.get("kind") == "classifier":
        acc = Acc(pid)
        run_classifier_product(acc)
        return acc
    if rep.get("kind") == "crashimg":
        acc = Acc(pid)
        run_c16_crash_images(acc, rep["seed"])
        return acc
    return replay_history(rep, pid)
