"""C13: idle channels are swept completely; sweeps keep running (also after a failed one);
the store returns to empty.

Per-sweep must-be-gone oracle and empty-at-quiescence (tracker), sweep-count monitor per service
lifetime, long runs (50 periods), and injected sweep failures: the first database access of chosen
sweeps raises OperationalError('database is locked') through the sqlite shim, or a second
connection really holds BEGIN EXCLUSIVE on the channel file across the timer instant."""
import sqlite3
from .common import *
from .. import scenarios
from ..engine import Monitor
from ..model import EXPIRY, PERIOD

GEN = dict(napps=3, nsides=4, steps=70, p_illegal=0.12)
KEYS = ("c13_must_be_gone", "c13_empty_at_quiescence")


class SweepFaults(Monitor):
    """Fails the first statement of the chosen sweeps (counted per World, 1-based)."""
    def __init__(self, acc, which, mode="shim"):
        self.acc, self.which, self.mode = acc, set(which), mode
        self.n = 0
        self.armed = False
        self.locker = None

    def on_begin(self, world, st):
        tr = world.monitors[0]
        if st.kind != "sweep":
            return
        self.n += 1
        if self.n in self.which:
            tr.expect_sweep_failure = True
            if self.mode == "shim":
                self.armed = True
            else:
                world.busy_timeout = 0.05
                self.locker = sqlite3.connect(world.channel_path, timeout=0.05, isolation_level=None)
                self.locker.execute("BEGIN EXCLUSIVE")

    def hook(self, world, dbconn, sql):
        if self.armed:      # the first statement of the sweep, on whichever of the server's databases it touches first
            self.armed = False
            self.acc.ev["c13_injected_sweep_failure"] += 1
            raise sqlite3.OperationalError("database is locked")

    def on_step(self, world, st):
        tr = world.monitors[0]
        if st.kind == "sweep" and tr.expect_sweep_failure:
            tr.expect_sweep_failure = False
            self.armed = False
            if self.locker is not None:
                self.locker.execute("ROLLBACK")
                self.locker.close()
                self.locker = None
                if st.sweep and st.sweep.get("exc"):
                    self.acc.ev["c13_real_lock_sweep_failure"] += 1


def jobs(pid, tier, seed):
    out = []
    for name, params in scenarios.directed_for(pid, tier):
        out.append({"kind": "directed", "name": name, "params": params})
    n = 2000 if tier == "quick" else 40000
    for i in range(n):
        k = "random"
        if i % 5 == 1:
            k = "faulty"
        elif i % 25 == 2:
            k = "locked"
        elif i % 25 == 3:
            k = "long"
        out.append({"kind": k, "seed": seed * 1000003 + i})
    out += [{"kind": "random", "seed": seed * 1000003 + 5000000 + i, "life": 1} for i in range(n)]
    out += [{"kind": "crashimg", "seed": seed * 1000 + i} for i in range(12 if tier == "quick" else 150)]
    # work the server postpones to a later reactor turn runs one command late; afterwards everybody leaves and the
    # store must still return to empty (histories of the C08 profile: many closes next to adds of the other side)
    out += [{"kind": "lazy", "seed": seed * 1000003 + 800000 + i} for i in range(300 if tier == "quick" else 6000)]
    out += [{"kind": "bulk_sweep", "n": n, "usage": u} for n in (1200,) for u in (0, 1)]
    return out


def run_crash_images(acc, seed):
    """Whatever a crash leaves behind (a mailbox without side rows, a nameplate whose claims are all released,
    half a close ...), a restarted service sweeps it completely once nobody returns: every commit boundary of a
    short two-app history is restarted, run for expiry + 2 periods, and must end with an empty store."""
    import os, random
    from .c10 import Imager, copy_db_files
    from ..engine import new_workdir, rmtree
    from ..scenarios import HB, claimed
    r = random.Random(seed)
    cfg = cfg_for(seed)
    b = HB()
    b.adv(r.choice([0.125, 3.5, 61]))
    for app in ("app", "app2"):
        A = b.conn(app, "s1")
        b.send(A, type="claim", nameplate="4")
        B = b.conn(app, "s2")
        b.send(B, type="allocate")
        b.send(B, type="claim", nameplate="4")
        b.send(B, type="open", mailbox="mS." + app)
        b.send(B, type="add", phase="p", body="c13-" + app)
        b.send(A, type="open", mailbox=claimed(A))
        b.send(A, type="add", phase="p", body="c13b-" + app)
        b.send(A, type="release")
        b.send(B, type="release", nameplate="4")
        b.send(B, type="close", mood="happy")
        b.send(A, type="close", mood="happy")
    root = new_workdir("c13i")
    imager = Imager(os.path.join(root, "images"))
    ex = Exec(cfg, seed=seed, track=False)
    try:
        ex.world.commit_hooks.append(imager)
        ex.run(b.h)
        imager.enabled = False
    finally:
        ex.close()
    try:
        for img in imager.images:
            wd = new_workdir("c13r")
            copy_db_files(img["dir"], wd)
            ex2 = Exec(cfg, seed=seed, workdir=wd, t0=img["t"])
            try:
                ex2.start()
                ex2.quiesce()
                base = {"property": "C13", "kind": "crashimg", "cfg": cfg.to_json(), "seed": seed,
                        "case": "crashimg:%d@%d" % (seed, img["n"]), "history": b.h}
                acc.cases += 1
                acc.ev["c13_crash_image_swept"] += 1
                acc.absorb_tracker(ex2.tracker, ex2.world, "crashimg:%d:%d" % (seed, img["n"]), base, KEYS)
            finally:
                ex2.close()
                rmtree(wd)
    finally:
        rmtree(root)


def run_bulk_sweep(pid, job, acc):
    """More than a thousand channels of one app (and some of another) go idle together: the first sweep after the
    expiration time deletes every one of them; one period later the store is empty."""
    from ..engine import World, new_workdir, rmtree
    cfg = Config(usage=bool(job["usage"]))
    wd = new_workdir("bulks")
    w = World(wd, cfg, seed=job["n"], dump_every_step=False)
    case = "bulk_sweep:%s" % sorted(job.items())
    try:
        w.start()
        for i in range(job["n"]):
            c = w.connect()
            app = "app" if i % 40 else "app2"
            w.send(c.name, {"type": "bind", "appid": app, "side": "s%d" % (i % 2)})
            if i % 2:
                w.send(c.name, {"type": "claim", "nameplate": "n%d" % i})
                w.send(c.name, {"type": "open", "mailbox": "mb%d" % i} if i % 4 == 1 else {"type": "list"})
            else:
                w.send(c.name, {"type": "open", "mailbox": "mb%d" % i})
                w.send(c.name, {"type": "add", "phase": "p", "body": "b%d" % i})
            w.drop(c.name)
        before = {t: len(r) for t, r in w.dump().items()}
        w.advance(EXPIRY + PERIOD + 1)
        left = {t: len(r) for t, r in w.dump().items() if r}
        acc.cases += 1
        acc.ev["c13_bulk_sweep"] += 1
        acc.ev["c13_empty_at_quiescence"] += 1
        acc.distinct.add(case)
        acc.steps += w.counters["steps"]
        if before.get("mailboxes", 0) < job["n"] * 0.9:
            acc.errors.append("bulk_sweep: only %r stored before the sweep" % before)
        if left:
            acc.add_violation({"property": pid, "kind": "bulk_sweep", "case": case, "job": job,
                               "violation": {"props": ["C13"], "kind": "idle channels left after expiry plus one period (many channels at once)",
                                             "detail": {"before": before, "left": left}, "step": None}})
    finally:
        w.close()
        rmtree(wd)


def run_job(pid, job, acc):
    k = job["kind"]
    if k == "directed":
        for case, hist, cfg, opts in scenarios.build(pid, job["name"], job["params"]):
            run_hist(acc, hist, cfg, 0, case, nontrivial_keys=KEYS, keep_sample=(len(acc.samples) < 2), **opts)
        return
    if k == "crashimg":
        return run_crash_images(acc, job["seed"])
    if k == "lazy":
        from .histcheck import run_lazy
        return run_lazy(pid, job, acc)
    if k == "bulk_sweep":
        return run_bulk_sweep(pid, job, acc)
    s = job["seed"]
    hist = generate(s, style=("life" if job.get("life") else None), **dict(GEN, jumps=bool(job.get("life") and s % 5 == 2)))
    cfg = cfg_for(s)
    pre = None
    if k in ("faulty", "locked"):
        import random
        r = random.Random(s)
        which = {2, 3, r.randrange(4, 9)}

        def pre(ex, which=which):
            f = SweepFaults(acc, which, "shim" if k == "faulty" else "lock")
            if k == "locked":
                ex.world.busy_timeout = 0.05
            ex.world.monitors.append(f)
            ex.world.execute_hooks.append(f.hook)
        hist = [st for st in hist if st[0] != "restart"] + [["adv", 300], ["adv", 300], ["adv", 300]]
    if k == "long":
        hist = hist + [["dropall"], ["adv", 50 * PERIOD]]
    run_hist(acc, hist, cfg, s, "%s:%d" % (k, s), nontrivial_keys=KEYS, keep_sample=(len(acc.samples) < 1), pre=pre)
    acc.extra["c13_jobs_" + k] += 1


def replay(pid, rep):
    if rep.get("kind") == "bulk_sweep":
        acc = Acc(pid)
        run_bulk_sweep(pid, rep["job"], acc)
        return acc
    if rep.get("kind") == "lazy":
        acc = Acc(pid)
        from .histcheck import run_lazy
        run_lazy(pid, rep["job"], acc)
        return acc
    case = rep.get("case", "")
    if rep.get("kind") == "crashimg":
        acc = Acc(pid)
        run_crash_images(acc, rep["seed"])
        return acc
    if case.startswith(("faulty", "locked", "long")):
        acc = Acc(pid)
        k, s = case.split(":")
        run_job(pid, {"kind": k, "seed": int(s)}, acc)
        return acc
    return replay_history(rep, pid)
