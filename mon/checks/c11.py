"""C11: restarting the server is invisible to reconnecting clients.

Differential: the prefix of a history is executed once; at the cut every connection is dropped and
the database files are copied; run R1 continues on the kept server object, run R2 is a fresh
makeService on the copy.  Sweeps are history events (explicit calls of the real expire closure at
the same virtual instants in both runs; the TimerService is not started, so neither run has a
start-up sweep).  Frames after the cut and the final stored rows must be equal."""
import shutil, os
from .common import *
from .. import scenarios, diff
from ..gen import Gen
from ..engine import new_workdir, rmtree

GEN = dict(napps=2, nsides=3, steps=44, restarts=False, use_time=True, explicit_sweeps=True, p_illegal=0.04)


def jobs(pid, tier, seed):
    n = 1500 if tier == "quick" else 30000
    out = [{"kind": "directed", "i": i} for i in range(len(DIRECTED))]
    out += [{"kind": "cut", "seed": seed * 1000003 + i} for i in range(n)]
    out += [{"kind": "cut", "seed": seed * 1000003 + 5000000 + i, "life": 1} for i in range(3 * n)]
    return out


def reconnect_suffix(seed, prefix_conns):
    """A continuation in which clients re-make their connections (same sides) and go on."""
    g = Gen(seed + 7777, **dict(GEN, steps=36))
    g.nconn = 500          # fresh connection names
    h = g.gen()
    return h


def compare_at_cut(acc, prefix, suffix, cfg, seed, case):
    ex1 = Exec(cfg, seed=seed, track=False, timer=False)
    wd2 = None
    try:
        ex1.start()
        rec1 = diff.record(ex1, prefix + [["dropall"]])
        w1 = ex1.world
        if w1.any_in_transaction():
            acc.add_violation({"property": "C11", "kind": "cut", "case": case, "cfg": cfg.to_json(), "seed": seed,
                               "history": prefix, "suffix": suffix,
                               "violation": {"props": ["C11", "C09"], "kind": "transaction open with no connection alive", "detail": {}}})
            return
        t_cut = w1.now
        wd2 = new_workdir("c11b")
        for f in os.listdir(ex1.workdir):
            shutil.copy(os.path.join(ex1.workdir, f), os.path.join(wd2, f))
        counters = dict(w1.krandom.counters)
        allocs, claims = dict(ex1.allocs), dict(ex1.claims)
        known = diff.Canon()
        diff.canon_frames(rec1, known)
        base_map = dict(known.map)
        n_prefix = len(rec1.steps)
        diff.record(ex1, suffix, rec1)
        c1 = diff.Canon(base_map)
        c1.n = len(base_map)
        f1 = diff.canon_frames(rec1, c1, start=n_prefix)
        s1 = diff.canon_store(rec1.final, c1)
        u1 = diff.canon_usage(rec1.ufinal)
        steps1, frames1 = w1.counters["steps"], w1.counters["frames"]
    finally:
        ex1.close()
    ex2 = Exec(cfg, seed=seed, track=False, timer=False, workdir=wd2, t0=t_cut)
    try:
        ex2.start()
        ex2.world.krandom.counters = counters
        ex2.allocs, ex2.claims = allocs, claims
        rec2 = diff.Rec()
        rec2.steps = [None] * n_prefix
        rec2.steps = list(rec1.steps[:n_prefix])
        diff.record(ex2, suffix, rec2)
        c2 = diff.Canon(base_map)
        c2.n = len(base_map)
        f2 = diff.canon_frames(rec2, c2, start=n_prefix)
        s2 = diff.canon_store(rec2.final, c2)
        u2 = diff.canon_usage(rec2.ufinal)
        acc.steps += steps1 + ex2.world.counters["steps"]
        acc.frames += frames1 + ex2.world.counters["frames"]
    finally:
        ex2.close()
        rmtree(wd2)
    acc.ev["c11_pair"] += 1
    nfr = sum(len(x["frames"]) for x in f1)
    acc.ev["c11_frames_compared"] += nfr
    if any(s[0] == "sweep" for s in suffix):
        acc.ev["c11_pair_with_sweep_after_cut"] += 1
    if rec1.final["mailboxes"] or any(x for x in s1["nameplates"]):
        pass
    d = diff.first_difference({"frames": f1, "store": s1, "usage": u1}, {"frames": f2, "store": s2, "usage": u2})
    if d:
        acc.add_violation({"property": "C11", "kind": "cut", "case": case, "cfg": cfg.to_json(), "seed": seed,
                           "history": prefix, "suffix": suffix,
                           "violation": {"props": ["C11"], "kind": "restarted server answers/stores differently from the kept one",
                                         "detail": {"first_difference": d, "kept=left, rebuilt=right": True}, "step": None}})
    return nfr


def b_directed():
    from ..scenarios import HB, claimed
    out = []
    # the F3 order: rows exist, restart, bind, sweep, open on both sides
    for sweep_between in (0, 1):
        for usage in (0, 1):
            p = HB()
            a = p.conn("app", "s1")
            p.send(a, type="claim", nameplate="4")
            p.send(a, type="open", mailbox=claimed(a))
            p.add(a, "pake")
            p.adv(5)
            s = HB()
            s.n = 100
            x = s.conn("app", "s1")
            if sweep_between:
                s.sweep()
            s.send(x, type="open", mailbox=claimed(a))
            y = s.conn("app", "s2")
            s.send(y, type="claim", nameplate="4")
            s.send(y, type="open", mailbox=claimed(a))
            s.add(y, "pake")
            s.adv(400)
            s.sweep()
            s.add(x, "later")
            s.adv(400)
            s.sweep()
            s.send(x, type="close", mood="happy")
            s.send(y, type="close", mood="happy")
            out.append((p.h, s.h, Config(usage=bool(usage))))
    # objects that outlive their rows: a channel expires (or is closed) while the process lives on; the kept server
    # still has whatever it keeps in memory for it, the rebuilt one has nothing; the same ids are then used again
    for how in ("expired-before-cut", "expired-after-cut", "closed-before-cut"):
        for via in ("direct", "nameplate"):
            for usage in (0, 1):
                p = HB()
                a = p.conn("app", "s1")
                if via == "nameplate":
                    p.send(a, type="claim", nameplate="4")
                    mb = claimed(a)
                else:
                    mb = "mR"
                p.send(a, type="open", mailbox=mb)
                p.add(a, "old1", id="i1")
                b2 = p.conn("app", "s2")
                p.send(b2, type="open", mailbox=mb)
                p.add(b2, "old2")
                o = p.conn("app2", "s1")
                p.send(o, type="open", mailbox="mR2")
                p.add(o, "other")
                if how == "closed-before-cut":
                    p.send(a, type="close", mood="happy")
                    p.send(b2, type="close", mood="happy")
                else:
                    p.drop(a)
                    p.drop(b2)
                    if how == "expired-before-cut":
                        p.adv(700)
                        p.sweep()
                p.adv(3)
                s = HB()
                s.n = 100
                if how == "expired-after-cut":
                    s.adv(700)
                    s.sweep()
                x = s.conn("app", "s1")
                if via == "nameplate":
                    s.send(x, type="claim", nameplate="4")
                    s.send(x, type="open", mailbox=claimed(x))
                else:
                    s.send(x, type="open", mailbox="mR")
                s.add(x, "new1")
                y = s.conn("app", "s2")
                if via == "nameplate":
                    s.send(y, type="claim", nameplate="4")
                    s.send(y, type="open", mailbox=claimed(y))
                else:
                    s.send(y, type="open", mailbox="mR")
                s.add(y, "new2")
                z = s.conn("app", "s3")
                s.send(z, type="open", mailbox="mR" if via == "direct" else claimed(x))
                s.send(x, type="close", mood="happy")
                s.send(y, type="close", mood="happy")
                w = s.conn("app", "s1")
                s.send(w, type="open", mailbox="mR" if via == "direct" else claimed(x))
                s.send(w, type="list")
                out.append((p.h, s.h, Config(usage=bool(usage))))
    # what an allocate made the running server remember about names in use is not in the database: the nine
    # one-digit names are held, an early allocate has happened, then "7" or another spelling of it ("07", " 7")
    # is retired in some way; the allocates after the cut must agree
    for pad in ("0%d", " %d", "+%d"):
        for how in ("pad-release", "pad-close", "release", "close", "none"):
            for usage in (0, 1):
                p = HB()
                E = p.conn("app", "s7")
                p.send(E, type="allocate")
                hold = {}
                for i in range(1, 10):
                    c = p.conn("app", "s1")
                    p.send(c, type="claim", nameplate="%d" % i)
                    hold[i] = c
                P = p.conn("app", "s6")
                p.send(P, type="claim", nameplate=pad % 7)
                if how == "pad-release":
                    p.send(P, type="release")
                elif how == "pad-close":
                    p.send(P, type="close", mailbox=claimed(P))
                elif how == "release":
                    p.send(hold[7], type="release")
                elif how == "close":
                    p.send(hold[7], type="close", mailbox=claimed(hold[7]))
                p.adv(5)
                s = HB()
                s.n = 100
                for k in range(3):
                    x = s.conn("app", "s%d" % (2 + k))
                    s.send(x, type="allocate")
                    s.send(x, type="list")
                out.append((p.h, s.h, Config(usage=bool(usage))))
    return out


DIRECTED = b_directed()


def run_job(pid, job, acc):
    if job["kind"] == "directed":
        p, s, cfg = DIRECTED[job["i"]]
        compare_at_cut(acc, p, s, cfg, 0, "directed:%d" % job["i"])
        acc.cases += 1
        acc.distinct.add(hhash([p, s]))
        return
    seed = job["seed"]
    import random
    r = random.Random(seed)
    if job.get("life"):
        # a channel life cycle with a restart in it: the restart is the cut (kept server: everybody merely drops)
        from ..lifegen import LifeGen
        h = LifeGen(seed, napps=2, restarts=True, explicit_sweeps=True).gen()   # (these runs have no timer)
        cuts = [i for i, s in enumerate(h) if s[0] == "restart" and i >= 3]
        if cuts:
            cut = r.choice(cuts)
            prefix, suffix = h[:cut], h[cut + 1:]
        else:
            cut = r.randrange(4, len(h))
            prefix, suffix = h[:cut], h[cut:]
        cfg = cfg_for(seed)
        nfr = compare_at_cut(acc, prefix, suffix, cfg, seed, "lifecut:%d" % seed)
        acc.cases += 1
        acc.ev["c11_life_pair"] += 1
        if nfr:
            acc.distinct.add(hhash([prefix, suffix]))
        return
    g = Gen(seed, **GEN)
    h = g.gen()
    cfg = cfg_for(seed)
    cut = r.randrange(4, len(h))
    prefix = h[:cut]
    if r.random() < 0.5:
        suffix = h[cut:]        # the same clients continue on new connections where the generator made them
        # connections made before the cut are dead; their later steps are no-ops in both runs
        suffix = reconnect_suffix(seed, None) if not any(s[0] == "connect" for s in suffix) else suffix
    else:
        suffix = reconnect_suffix(seed, None)
    if r.random() < 0.4:
        suffix = [["sweep"]] + suffix
    nfr = compare_at_cut(acc, prefix, suffix, cfg, seed, "cut:%d" % seed)
    acc.cases += 1
    if nfr:
        acc.distinct.add(hhash([prefix, suffix]))
    if len(acc.samples) < 2:
        acc.samples.append({"case": "cut:%d" % seed, "cut_at": cut, "prefix_tail": prefix[-6:], "suffix_head": suffix[:10]})


def replay(pid, rep):
    acc = Acc(pid)
    compare_at_cut(acc, rep["history"], rep["suffix"], Config.from_json(rep["cfg"]), rep["seed"], rep["case"])
    return acc
