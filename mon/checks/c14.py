"""C14: re-sending an acknowledged command is harmless.

Differential: history H versus H with one successfully answered claim/release/open/close re-sent,
immediately afterwards and at the same virtual instant, on a fresh connection bound to the same app
and side (naming the nameplate / mailbox explicitly, same mood) which is then dropped.  The
duplicate's answer must equal the original's; every later frame of every original connection and
the final channel rows (timestamps included) must be equal."""
from .common import *
from .. import scenarios, diff
from ..gen import Gen

GEN = dict(napps=2, nsides=3, steps=60, p_illegal=0.03)
ANSWER = {"claim": "claimed", "release": "released", "open": None, "close": "closed"}


def jobs(pid, tier, seed):
    out = []
    for name, params in scenarios.directed_for(pid, tier):
        out.append({"kind": "directed", "name": name, "params": params})
    out += [{"kind": "dirdup", "i": i} for i in range(16)]
    out += [{"kind": "dirdup2", "i": i} for i in range(8)]
    out += [{"kind": "dirdup3", "i": i} for i in range(4)]
    out += [{"kind": "dirdup4", "i": i} for i in range(4)]
    out += [{"kind": "dirdup5", "i": i} for i in range(4)]
    n = 700 if tier == "quick" else 15000
    out += [{"kind": "dup", "seed": seed * 1000003 + i, "max": 4 if tier == "quick" else 12} for i in range(n)]
    out += [{"kind": "dup", "seed": seed * 1000003 + 5000000 + i, "max": 6 if tier == "quick" else 14, "life": 1} for i in range(2 * n)]
    return out


def eligible(hist, rec):
    """Indices of history steps holding a successfully answered claim/release/open/close."""
    out = []
    binds = diff.conn_apps(hist)
    for i, s in enumerate(hist):
        if s[0] != "send" or not isinstance(s[2], dict):
            continue
        t = s[2].get("type")
        if t not in ANSWER or s[1] not in binds:
            continue
        fr = [f for c, f in rec.steps[i]["frames"] if c == s[1]]
        types = [f.get("type") for f in fr]
        if "error" in types or rec.steps[i]["exc"] or not types or types[0] != "ack":
            continue
        if ANSWER[t] is not None and ANSWER[t] not in types:
            continue
        out.append(i)
    return out


def explicit_cmd(hist, i, rec=None):
    """The command of step i with its nameplate / mailbox named explicitly (symbolically).  A close without a name is
    about the mailbox of the connection's last `open` that the server took up: an open refused because the connection
    was already holding a mailbox (or for another protocol reason) names nothing the connection ever held; an open
    refused as crowded does (the id is what a later close on that connection refers to)."""
    c, msg = hist[i][1], dict(hist[i][2])
    t = msg["type"]
    cmd = {"type": t}
    if t == "claim":
        cmd["nameplate"] = msg["nameplate"]
    elif t == "release":
        if "nameplate" in msg:
            cmd["nameplate"] = msg["nameplate"]
        else:
            prev = [s for s in hist[:i] if s[0] == "send" and s[1] == c and isinstance(s[2], dict)
                    and s[2].get("type") == "claim" and "nameplate" in s[2]]
            if not prev:
                return None
            cmd["nameplate"] = prev[0][2]["nameplate"]
    elif t == "open":
        cmd["mailbox"] = msg["mailbox"]
    elif t == "close":
        if "mailbox" in msg:
            cmd["mailbox"] = msg["mailbox"]
        else:
            def taken_up(k):
                if rec is None:
                    return True
                errs = [f.get("error") for cc, f in rec.steps[k]["frames"] if cc == c and f.get("type") == "error"]
                return all(e == "crowded" for e in errs)
            prev = [s for k, s in enumerate(hist[:i]) if s[0] == "send" and s[1] == c and isinstance(s[2], dict)
                    and s[2].get("type") == "open" and "mailbox" in s[2] and taken_up(k)]
            if not prev:
                return None
            cmd["mailbox"] = prev[-1][2]["mailbox"]
        if "mood" in msg:
            cmd["mood"] = msg["mood"]
    return cmd


def observe(hist, cfg, seed, skip_conn=None):
    # odd seeds run on database files created from the schema snapshots in mon/legacy/ (an installation that
    # pre-dates the tree under test but has the same schema version)
    ex = Exec(cfg, seed=seed, track=False, legacy=bool(seed % 2))
    try:
        ex.start()
        rec = diff.record(ex, hist)
        return rec, ex.world.counters
    finally:
        ex.close()


def answer_of(rec, i, conn, can):
    fr = [can.apply({k: v for k, v in f.items() if k not in ("id",)}) for c, f in rec.steps[i]["frames"] if c == conn]
    return [f for f in fr if f.get("type") != "ack"] if False else [
        {k: v for k, v in f.items() if k != "orig"} for f in fr]


def sides_of_mailbox_count(rec_steps_upto, hist, i):
    return None


def one_dup(acc, hist, cfg, seed, i, rec0, case, keep=False):
    binds = diff.conn_apps(hist)
    c = hist[i][1]
    app, side = binds[c]
    cmd = explicit_cmd(hist, i, rec0)
    if cmd is None:
        return
    dup = [["connect", "dup"], ["send", "dup", {"type": "bind", "appid": app, "side": side}], ["send", "dup", cmd]]
    # the re-sending connection is dropped at once, or (keep) stays attached next to the stale original
    # connection until the original closes / drops / the server restarts
    j = i + 1
    if keep:
        j = len(hist)
        for k in range(i + 1, len(hist)):
            s = hist[k]
            if s[0] in ("restart", "dropall") or (s[0] == "drop" and s[1] == c) or \
                    (s[0] == "send" and s[1] == c and isinstance(s[2], dict) and s[2].get("type") == "close"):
                j = k
                break
    h2 = hist[:i + 1] + dup + hist[i + 1:j] + [["drop", "dup"]] + hist[j:]
    rec2, cnt = observe(h2, cfg, seed)
    acc.steps += cnt["steps"]
    acc.frames += cnt["frames"]
    acc.ev["c14_duplicate_pair"] += 1
    acc.ev["c14_dup_" + cmd["type"]] += 1
    if keep:
        acc.ev["c14_dup_kept_connected"] += 1
    # remove the four duplicate steps from the second log, remember the duplicate's answer
    dup_answer_step = rec2.steps[i + 3]
    jj = j + 3          # position of the inserted drop in h2
    steps2 = rec2.steps[:i + 1] + rec2.steps[i + 4:jj] + rec2.steps[jj + 1:]
    can1, can2 = diff.Canon(), diff.Canon()
    r1 = diff.Rec(); r1.steps = rec0.steps
    r2 = diff.Rec(); r2.steps = steps2
    f1 = diff.canon_frames(r1, can1, skip_conns=("dup",))
    f2 = diff.canon_frames(r2, can2, skip_conns=("dup",))
    s1 = diff.canon_store(rec0.final, can1)
    s2 = diff.canon_store(rec2.final, can2)
    orig_ans = [{k: v for k, v in can1.apply(f).items() if k not in ("id", "orig", "server_tx")}
                for cc, f in rec0.steps[i]["frames"] if cc == c]
    dup_ans = [{k: v for k, v in can2.apply(f).items() if k not in ("id", "orig", "server_tx")}
               for cc, f in dup_answer_step["frames"] if cc == "dup"]
    problems = []
    if cmd["type"] == "open":
        # open doubles as subscribe: the replay is the answer; compare as multisets of (side, phase, body)
        key = lambda fs: sorted(repr(sorted((k, v) for k, v in f.items() if k != "server_tx")) for f in fs)
        if key(orig_ans) != key(dup_ans):
            # messages added between... none: the duplicate is immediate. But the original's replay
            # precedes its own subscription; both must list the same stored messages.
            problems.append("duplicate's answer differs: %s vs %s" % (diff._s(orig_ans), diff._s(dup_ans)))
    elif orig_ans != dup_ans:
        problems.append("duplicate's answer differs: %s vs %s" % (diff._s(orig_ans), diff._s(dup_ans)))
    d = diff.first_difference({"frames": f1, "store": s1}, {"frames": f2, "store": s2})
    if d:
        problems.append("later frames / final channel rows differ: " + d)
    if not problems:
        return
    # F7: the duplicate of one of the first two sides is answered crowded on a mailbox three sides touched
    dup_err = [f.get("error") for f in dup_ans if f.get("type") == "error"]
    if dup_err == ["crowded"]:
        acc.known.append({"id": "F7", "props": ["C05", "C14"], "step": i, "detail": {"cmd": cmd["type"], "side": side},
                          "replay": {"property": "C14", "kind": "dup", "case": case, "cfg": cfg.to_json(), "seed": seed,
                                     "history": hist, "dup_at": i, "keep": keep}})
        return
    # self-check
    again, _ = observe(hist, cfg, seed)
    ra = diff.Rec(); ra.steps = again.steps
    if diff.first_difference(diff.canon_frames(ra, diff.Canon()), diff.canon_frames(r1, diff.Canon())):
        acc.errors.append("self-check failed (uncontrolled nondeterminism) %s" % case)
        return
    acc.add_violation({"property": "C14", "kind": "dup", "case": case, "cfg": cfg.to_json(), "seed": seed, "history": hist, "dup_at": i, "keep": keep,
                       "violation": {"props": ["C14"], "kind": "re-sent %s is not harmless" % cmd["type"],
                                     "detail": {"command": cmd, "conn": c, "side": side, "problems": problems}, "step": i}})


def check_history(acc, hist, cfg, seed, case, maxdup, rnd, both=False):
    rec0, cnt = observe(hist, cfg, seed)
    acc.steps += cnt["steps"]
    acc.frames += cnt["frames"]
    el = eligible(hist, rec0)
    if len(el) > maxdup:
        el = sorted(rnd.sample(el, maxdup))
    for n, i in enumerate(el):
        if both:
            # directed histories: the duplicate's connection goes away at once, and (second run) stays
            one_dup(acc, hist, cfg, seed, i, rec0, "%s@%d" % (case, i), keep=False)
            one_dup(acc, hist, cfg, seed, i, rec0, "%s@%d+" % (case, i), keep=True)
        else:
            one_dup(acc, hist, cfg, seed, i, rec0, "%s@%d" % (case, i), keep=bool((n + seed) % 2))
    acc.cases += 1
    if el:
        acc.distinct.add(hhash(hist))


def dir_hist(i):
    from ..scenarios import HB, claimed
    b = HB()
    A = b.conn("app", "s1")
    b.send(A, type="claim", nameplate="3")
    b.send(A, type="open", mailbox=claimed(A))
    b.add(A, "pake")
    B = b.conn("app", "s2")
    b.send(B, type="claim", nameplate="3")
    b.send(B, type="open", mailbox=claimed(A))
    b.add(B, "pake")
    if i & 1:
        b.drop(B)
    if i & 8:
        X = b.conn("app", "s3")        # a third side is turned away (F7's trigger for the re-sent close)
        b.send(X, type="open", mailbox=claimed(A))
    b.adv(300)          # a sweep re-stamps the subscribed mailbox (F9's trigger)
    b.adv(100)
    if i & 2:
        b.send(A, type="release")
        b.send(B, type="release", nameplate="3") if not (i & 1) else None
    b.send(A, type="close", mood="happy")
    b.adv(200)
    if not (i & 1):
        b.add(B, "late")
        b.send(B, type="close", mood="happy")
    if i & 4:
        b.adv(400)
        C = b.conn("app", "s2")
        b.send(C, type="open", mailbox=claimed(A))
    b.adv(700)
    D = b.conn("app", "s1")
    b.send(D, type="claim", nameplate="3")
    return [s for s in b.h if s is not None]


def dir_hist2(i):
    """After a restart the app has stored rows but no objects in memory: the original command and its duplicate are the
    first things the new process sees from that app; a sweep tick passes before the clients go on (whatever the server
    keeps per connection or per side must survive the duplicate's connection going away)."""
    from ..scenarios import HB, claimed
    b = HB()
    A0 = b.conn("app", "s1")
    b.send(A0, type="claim", nameplate="7")
    if i & 1:
        b.send(A0, type="open", mailbox=claimed(A0))
        b.add(A0, "first")
    b.drop(A0)
    b.adv(20)
    b.restart()
    A = b.conn("app", "s1")
    cmd = ["release", "claim", "open", "close"][(i >> 1) & 3]
    if cmd == "release":
        b.send(A, type="release", nameplate="7")
    elif cmd == "claim":
        b.send(A, type="claim", nameplate="7")
    elif cmd == "open":
        b.send(A, type="open", mailbox=claimed(A0))
    else:
        b.send(A, type="close", mailbox=claimed(A0), mood="happy")
    b.adv(300)          # one sweep tick
    A2 = b.conn("app", "s1")
    b.send(A2, type="open", mailbox=claimed(A0))
    B = b.conn("app", "s2")
    b.send(B, type="open", mailbox=claimed(A0))
    b.add(B, "pake")
    b.add(A2, "pake")
    if cmd in ("release", "claim"):
        b.send(A, type="open", mailbox=claimed(A0))
        b.add(B, "late")
    b.adv(300)
    b.add(B, "later")
    return b.h


def dir_hist3(i):
    """One side closes while the other stays subscribed; afterwards the closer comes back on a new connection and both
    go on talking, across several sweeps (whatever the re-sent command's connection touched in memory, the one who
    stayed is still reachable and its channel still alive)."""
    from ..scenarios import HB, claimed
    b = HB()
    A = b.conn("app", "s1")
    B = b.conn("app", "s2")
    if i & 1:
        b.send(A, type="claim", nameplate="5")
        b.send(B, type="claim", nameplate="5")
        mb = claimed(A)
    else:
        mb = "mK"
    b.send(A, type="open", mailbox=mb)
    b.send(B, type="open", mailbox=mb)
    b.add(A, "a1")
    b.add(B, "b1")
    b.send(A, type="close", mood="happy")
    b.adv(100)
    A2 = b.conn("app", "s1")
    b.send(A2, type="open", mailbox=mb)
    b.add(A2, "a2")
    b.adv(700)          # sweeps pass; B (and A2) are subscribed all the time
    b.add(B, "b2")
    b.adv(700)
    b.add(A2, "a3")
    b.send(B, type="close", mood="happy")
    b.send(A2, type="close", mood="happy")
    return b.h


def dir_hist4(i):
    """The same client-chosen mailbox id lives twice: the first incarnation is ended by a last close (re-sent: the
    mailbox is already gone), later both sides use the id again, one of them loses its connection and closes from a new
    one without opening (whatever the server remembered about the first incarnation's closes must not leak into the second)."""
    from ..scenarios import HB, claimed
    b = HB()
    A = b.conn("app", "s1")
    b.send(A, type="open", mailbox="mQ")
    b.add(A, "first")
    if i & 1:
        B0 = b.conn("app", "s2")
        b.send(B0, type="open", mailbox="mQ")
        b.send(B0, type="close", mood="happy")
    b.send(A, type="close", mood="happy")           # last close: deleted
    b.adv(50)
    A2 = b.conn("app", "s1")
    b.send(A2, type="open", mailbox="mQ")
    B = b.conn("app", "s2")
    b.send(B, type="open", mailbox="mQ")
    b.add(A2, "second")
    b.drop(A2)
    b.adv(5)
    A3 = b.conn("app", "s1")
    b.send(A3, type="close", mailbox="mQ", mood="happy")     # close without open on the reconnected connection
    b.add(B, "third")
    b.send(B, type="close", mood="happy")
    D = b.conn("app", "s3")
    b.send(D, type="open", mailbox="mQ")
    b.send(D, type="list")
    if i & 2:
        b.adv(700)
    E = b.conn("app", "s1")
    b.send(E, type="open", mailbox="mQ")
    return b.h


def dir_hist5(i):
    """One side is busy in many channels at once: it allocates on several connections, claims a few explicit names,
    claims and releases / opens and closes some of them, then goes on allocating and claiming; a second side joins some
    and lists.  A re-sent claim, release, open or close anywhere in this must not change how many channels the side may
    have, which names the later allocates get, or what the other side is shown."""
    from ..scenarios import HB, claimed, alloc
    b = HB()
    conns = []
    for k in range(4):
        c = b.conn("app", "s1")
        b.send(c, type="allocate")
        conns.append(c)
    for k, nm in enumerate(["21", "22", "23", "24", "25", "26", "27"][:3 + 4 * (i & 1)]):
        c = b.conn("app", "s1")
        b.send(c, type="claim", nameplate=nm)
        conns.append(c)
    b.send(conns[0], type="claim", nameplate=alloc(conns[0]))
    b.send(conns[0], type="release")
    b.send(conns[1], type="claim", nameplate=alloc(conns[1]))
    b.send(conns[1], type="open", mailbox=claimed(conns[1]))
    b.send(conns[1], type="close", mood="happy")
    b.send(conns[4], type="release")
    L = b.conn("app", "s2")
    b.send(L, type="list")
    if i & 2:
        b.adv(30)
    for k in range(5):
        c = b.conn("app", "s1")
        b.send(c, type="allocate")
        b.send(c, type="claim", nameplate=alloc(c))
        if k % 2:
            b.send(c, type="release")
    for nm in ("28", "29", "21"):
        c = b.conn("app", "s1")
        b.send(c, type="claim", nameplate=nm)
    b.send(L, type="list")
    P = b.conn("app", "s2")
    b.send(P, type="claim", nameplate="22")
    b.send(P, type="open", mailbox=claimed(P))
    b.send(L, type="list")
    return b.h


def run_job(pid, job, acc):
    import random
    if job["kind"] == "dirdup5":
        h = dir_hist5(job["i"])
        check_history(acc, h, Config(usage=bool(job["i"] & 2)), job["i"], "dirdup5:%d" % job["i"], 60, random.Random(0), both=True)
        return
    if job["kind"] == "dirdup4":
        h = dir_hist4(job["i"])
        check_history(acc, h, Config(usage=bool(job["i"] & 2)), job["i"], "dirdup4:%d" % job["i"], 50, random.Random(0), both=True)
        return
    if job["kind"] == "dirdup3":
        h = dir_hist3(job["i"])
        check_history(acc, h, Config(usage=bool(job["i"] & 2)), job["i"], "dirdup3:%d" % job["i"], 50, random.Random(0), both=True)
        return
    if job["kind"] == "dirdup2":
        h = dir_hist2(job["i"])
        check_history(acc, h, Config(usage=bool(job["i"] % 2)), job["i"], "dirdup2:%d" % job["i"], 50, random.Random(0), both=True)
        return
    if job["kind"] == "directed":
        for case, hist, cfg, opts in scenarios.build(pid, job["name"], job["params"]):
            check_history(acc, hist, cfg, 0, case, 50, random.Random(0))
        return
    if job["kind"] == "dirdup":
        h = dir_hist(job["i"])
        check_history(acc, h, Config(usage=bool(job["i"] % 2)), job["i"] // 2, "dirdup:%d" % job["i"], 50, random.Random(0), both=True)
        return
    s = job["seed"]
    hist = generate(s, style=("life" if job.get("life") else None), **GEN)
    cfg = cfg_for(s)
    check_history(acc, hist, cfg, s, "dup:%d" % s, job["max"], random.Random(s))
    if len(acc.samples) < 2:
        acc.samples.append({"case": "dup:%d" % s, "history_head": hist[:20]})


def replay(pid, rep):
    acc = Acc(pid)
    cfg = Config.from_json(rep["cfg"])
    rec0, _ = observe(rep["history"], cfg, rep["seed"])
    one_dup(acc, rep["history"], cfg, rep["seed"], rep["dup_at"], rec0, rep["case"], keep=rep.get("keep", False))
    return acc
