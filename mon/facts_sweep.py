"""Sweep steps: C12 must-survive, C13 must-be-gone / sweeps keep running / empty at quiescence,
C15 records for expired channels and the status row."""
from collections import Counter
from .model import *
from .model import _short, _tail, _d


class SweepMixin(object):
    expect_sweep_failure = False
    sweep_failed_before = False     # a failed sweep stamps nothing; the "recently subscribed" rule is off afterwards
    irregular_sweeps = False        # the process was suspended at some point (`jump`): sweeps were not one period apart,
                                    # so "away for the expiration time minus one period" does not follow any more; what
                                    # is left of C12 is the statement itself: subscribed at the sweep, or active within
                                    # the expiration time before it

    def _subscribed(self, m):
        return [cm.name for cm in self.cm.values() if cm.alive and cm.sub is m]

    def _on_sweep(self, world, st, d, ud):
        sw = st.sweep
        if sw is None:
            # the timer fired but no sweep was attempted
            self.flag({"C13"}, "timer fired without a sweep", st, {"exc": st.exc, "errors": st.errors})
            return
        self.sweeps_by_life[st.life].append(st.t)
        self.ev["sweep"] += 1
        if sw["now"] != st.t or sw["old"] != st.t - EXPIRY:
            # every time-based promise hangs on this: expiry (C12/C13), usage totals and the status row (C15)
            self.flag({"C12", "C13"} | ({"C15"} if self.usage_on else set()),
                      "sweep computed with a clock other than now / a cutoff other than now minus the expiration time", st,
                      {"now": sw["now"], "old": sw["old"], "t": st.t, "expected_old": st.t - EXPIRY})
        # the oracles below judge against the true time of the sweep, not against what the service passed down
        now = st.t
        failed = bool(sw.get("exc")) or bool(st.errors) or bool(st.exc)
        if failed:
            self.sweep_failed_before = True
            if self.expect_sweep_failure:
                self.ev["sweep_failed_injected"] += 1
            else:
                self.flag({"C13", "C10"}, "sweep failed", st,
                          {"exc": sw.get("exc"), "errors": st.errors, "tb": _tail(sw.get("tb"))})
            if d:
                self.flag({"C13"}, "failed sweep left partial changes", st, {"diff": _d(d)})
            return
        if st.frames:
            self.flag({"C02"}, "sweep produced frames", st, {"frames": _short(st.frames)})
        deleted_mb = {}
        for (t, k, old, new) in d:
            if t == "mailboxes" and new is None:
                deleted_mb[(old["app_id"], old["id"])] = old
        allowed_del_mids = set()
        for k, row in list(st.before["mailboxes"].items()):
            app, mid = row["app_id"], row["id"]
            key = (app, mid)
            m = self.mb.get(key)
            subs = self._subscribed(m) if m is not None else []
            gone = key in deleted_mb
            if gone:
                allowed_del_mids.add(key)
            if m is None or m.unknown_origin:
                self.dontcare["sweep_unknown_mailbox"] += 1
                continue
            age_low = now - m.t_low
            age_high = now - m.t_high
            t_unsub = getattr(m, "t_unsub", None)
            recently_subscribed = t_unsub is not None and (now - t_unsub) < (EXPIRY - PERIOD) and not self.sweep_failed_before \
                and not self.irregular_sweeps
            if recently_subscribed and not (subs or age_low < EXPIRY):
                self.ev["c12_must_survive_recently_subscribed"] += 1
            if subs or age_low < EXPIRY or recently_subscribed:
                # C12
                self.ev["c12_must_survive"] += 1
                if subs:
                    self.ev["c12_must_survive_subscribed"] += 1
                if EXPIRY - 1 <= age_low < EXPIRY:
                    self.ev["c12_must_survive_near_cutoff"] += 1
                problems = self._survival_problems(st, app, mid)
                if problems:
                    # a premature expiry also breaks what the other properties promise "until it expires":
                    # stored messages (C01), a side that has not closed (C08), a held nameplate (C07)
                    also = set()
                    if "messages" in problems or ("mailbox" in problems and msgs_of(st.before, app, mid)):
                        also.add("C01")
                    if m.open_low and "mailbox" in problems:
                        also.add("C08")
                    if "nameplate" in problems and any(n.holders() and n.mid == mid and n.app == app for n in self._np_before.values()):
                        also.add("C07")
                    if subs and "mailbox" in problems:
                        also.add("C02")
                    self.flag({"C12"} | also, "sweep removed part of an active/subscribed channel", st,
                              {"mailbox": mid, "app": app, "subscribed": subs, "age": age_low,
                               "lost": problems})
            elif age_high > EXPIRY and not subs:
                # C13
                self.ev["c13_must_be_gone"] += 1
                left = self._leftovers(st, app, mid)
                if left:
                    self.flag({"C13"}, "idle channel not swept completely", st,
                              {"mailbox": mid, "app": app, "idle_for": age_high, "left": left})
            else:
                self.dontcare["sweep_near_cutoff"] += 1
                # whatever happened must be all-or-nothing
                left = self._leftovers(st, app, mid)
                if gone and left:
                    self.flag({"C13"}, "expired mailbox deleted but dependents kept", st, {"mailbox": mid, "left": left})
            if subs:
                m.t_high = max(m.t_high, now)
        # footprint of the sweep: nothing but expired channels (and `updated` of subscribed ones)
        self.ev["sweep_footprint"] += 1
        bad = []
        for (t, k, old, new) in d:
            if t == "mailboxes":
                if new is None:
                    continue
                if old is not None and [c for c in new if new[c] != old[c]] == ["updated"]:
                    m = self.mb.get((new["app_id"], new["id"]))
                    if m is not None and self._subscribed(m) and new["updated"] == now:
                        continue
                bad.append((t, k, old, new))
            elif new is not None:
                bad.append((t, k, old, new))
            else:
                # a deleted dependent row must belong to a deleted mailbox
                if t == "messages":
                    ok = (old["app_id"], old["mailbox_id"]) in deleted_mb
                elif t == "mailbox_sides":
                    ok = any(kk[1] == old["mailbox_id"] for kk in deleted_mb)
                elif t == "nameplates":
                    ok = (old["app_id"], old["mailbox_id"]) in deleted_mb
                elif t == "nameplate_sides":
                    r = st.before["nameplates"].get(old["nameplates_id"])
                    ok = r is not None and (r["app_id"], r["mailbox_id"]) in deleted_mb
                else:
                    ok = False
                if not ok:
                    bad.append((t, k, old, new))
        if bad:
            self.flag({"C12"}, "sweep changed rows that do not belong to an expired channel", st, {"rows": _d(bad)})
        # usage records for what was retired (C15/C16), status row
        if self.usage_on:
            self._sweep_usage(world, st, d, ud, deleted_mb, now)
        for key in deleted_mb:
            self.mb.pop(key, None)
            self.msgs.pop(key, None)
        for (t, k, old, new) in d:
            if t == "nameplates" and new is None:
                self.np.pop((old["app_id"], old["name"]), None)

    def _survival_problems(self, st, app, mid):
        b, a = st.before, st.after
        out = []
        if not mb_find(a, app, mid):
            out.append("mailbox")
        if len(msgs_of(a, app, mid)) != len(msgs_of(b, app, mid)):
            out.append("messages")
        if sorted(r["side"] for _, r in mb_sides(a, mid)) != sorted(r["side"] for _, r in mb_sides(b, mid)):
            out.append("side records")
        nb = {i: r for i, r in b["nameplates"].items() if r["app_id"] == app and r["mailbox_id"] == mid}
        for i, r in nb.items():
            if a["nameplates"].get(i) != r:
                out.append("nameplate")
            elif sorted(_short(x) for _, x in np_sides(a, i)) != sorted(_short(x) for _, x in np_sides(b, i)):
                out.append("nameplate side records")
        return out

    def _leftovers(self, st, app, mid):
        a = st.after
        left = []
        if mb_find(a, app, mid):
            left.append("mailbox")
        if msgs_of(a, app, mid):
            left.append("messages")
        if mb_sides(a, mid):
            left.append("side records")
        if any(r["app_id"] == app and r["mailbox_id"] == mid for r in a["nameplates"].values()):
            left.append("nameplate")
        return left

    def _sweep_usage(self, world, st, d, ud, deleted_mb, now):
        new_mb = [new for (t, k, old, new) in ud if t == "mailboxes" and old is None]
        new_np = [new for (t, k, old, new) in ud if t == "nameplates" and old is None]
        gone_np = [old for (t, k, old, new) in d if t == "nameplates" and new is None]
        self.ev["c15_conservation_sweep"] += 1
        for app in set([k[0] for k in deleted_mb] + [r["app_id"] for r in new_mb]):
            want = sum(1 for k in deleted_mb if k[0] == app)
            got = sum(1 for r in new_mb if r["app_id"] == app)
            if want != got:
                self.flag({"C15"}, "expired mailboxes: %d, usage records: %d" % (want, got), st, {"app": app})
        for app in set([r["app_id"] for r in gone_np] + [r["app_id"] for r in new_np]):
            want = sum(1 for r in gone_np if r["app_id"] == app)
            got = sum(1 for r in new_np if r["app_id"] == app)
            if want != got:
                self.flag({"C15"}, "expired nameplates: %d, usage records: %d" % (want, got), st, {"app": app})
        # classification: match records to retired objects as multisets per app
        exp_mb = Counter()
        known = True
        t0s = {}
        for key in deleted_mb:
            m = self.mb.get(key)
            if m is None or m.unknown_origin or "ambiguous" in m.taint:
                known = False
                continue
            e, t0 = self._expected_mailbox_usage(m, now, True)
            e["for_nameplate"] = None
            exp_mb[_rec_key(e)] += 1
            self._check_blur(st, "started", e["started"], t0, "mailbox-pruned")
        if known and len(new_mb) == len(deleted_mb):
            self.ev["c15_classified_mailbox"] += len(new_mb)
            got = Counter(_rec_key(r) for r in new_mb)
            if got != exp_mb:
                self.flag({"C15"} | self._only_started_differs(got, exp_mb), "usage records of expired mailboxes differ from the facts", st,
                          {"got": sorted(got.elements(), key=repr), "expected": sorted(exp_mb.elements(), key=repr)})
        exp_np = Counter()
        known = True
        for old in gone_np:
            n = self.np.get((old["app_id"], old["name"]))
            if n is None or n.unknown_origin or "ambiguous" in n.taint or not n.attempts:
                known = False
                continue
            at = n.attempts
            t0 = at[0][1]
            e = {"app_id": n.app, "started": self._blurred(t0),
                 "waiting_time": (at[1][1] - at[0][1]) if len(at) > 1 else None,
                 "total_time": now - t0, "result": classify_nameplate(len(at), True)}
            exp_np[_rec_key(e)] += 1
            self._check_blur(st, "started", e["started"], t0, "nameplate-pruned")
        if known and len(new_np) == len(gone_np):
            self.ev["c15_classified_nameplate"] += len(new_np)
            got = Counter(_rec_key(r) for r in new_np)
            if got != exp_np:
                self.flag({"C15"} | self._only_started_differs(got, exp_np), "usage records of expired nameplates differ from the facts", st,
                          {"got": sorted(got.elements(), key=repr), "expected": sorted(exp_np.elements(), key=repr)})
        # C16: every start time written by the sweep is a multiple of the blur interval
        if self.blur:
            for r in new_mb + new_np:
                self.ev["c16_blur_pruned_row"] += 1
                if r["started"] is None or r["started"] % self.blur != 0:
                    self.flag({"C16"}, "usage timestamp written by a sweep is not blurred", st, {"row": r, "blur": self.blur})
        # status row
        self.ev["c15_status_row"] += 1
        cur = list(st.uafter["current"].values())
        subs = sum(1 for cm in self.cm.values() if cm.alive and cm.sub is not None)
        if len(cur) != 1:
            self.flag({"C15"}, "status table does not hold exactly one row", st, {"rows": cur})
        else:
            c = cur[0]
            if c["connections_websocket"] != subs or c["updated"] != now or c["blur_time"] != self.blur \
                    or c["rebooted"] != world.rebooted:
                self.flag({"C15"}, "status row does not report the subscribed connections", st,
                          {"row": c, "subscribed": subs, "now": now, "rebooted": world.rebooted})

    def _only_started_differs(self, got, exp):
        if not self.blur:
            return set()
        drop = lambda c: Counter((k[0],) + tuple(k[2:]) for k in c.elements())
        if drop(got) == drop(exp):
            return {"C16"}
        # same number of records per app but the multiset of start times is not the multiset of blurred true starts:
        # some record carries a start time that is not within one interval before its object's true start
        starts = lambda c: Counter((k[0], k[1]) for k in c.elements())
        if sum(got.values()) == sum(exp.values()) and starts(got) != starts(exp):
            return {"C16"}
        return set()

    # ------------------------------------------------------------------
    def check_sweep_counts(self, world, st=None):
        """C13: sweeps keep running at the configured period for the whole service lifetime."""
        life = world.life
        ts = self.sweeps_by_life.get(life, [])
        if world.rebooted is None:
            return
        self.ev["c13_sweep_count"] += 1
        elapsed = world.now - world.rebooted
        want = int(elapsed // PERIOD) + 1
        if len(ts) < want:
            self.flag({"C13"}, "fewer sweeps than the period demands", None,
                      {"life": life, "sweeps": len(ts), "expected": want, "elapsed": elapsed})
        for a, b in zip(ts, ts[1:]):
            if b - a != PERIOD:
                self.flag({"C13", "C12"}, "sweeps not one period apart", None, {"gap": b - a})
                break

    def check_quiescent(self, world):
        """C13: after everybody left and expiry + 2 periods passed the store is empty."""
        self.ev["c13_empty_at_quiescence"] += 1
        d = world.dump()
        left = {t: len(r) for t, r in d.items() if r}
        if left:
            sample = {t: [_short(x) for x in list(r.values())[:2]] for t, r in d.items() if r}
            self.flag({"C13"}, "store not empty after quiescence", None, {"left": left, "sample": sample})


def _rec_key(r):
    return (r["app_id"], r["started"], r["waiting_time"], r["total_time"], r["result"])


from .facts_mbox import classify_nameplate  # noqa: E402
