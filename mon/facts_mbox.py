"""open / add / close steps and the usage-record oracles (C01 C02 C05 C08 C09 C15 C16)."""
from collections import Counter
from .model import *
from .model import _short, _tail, _d
from .proto import REJECTED, VALID, AMBIGUOUS

MOOD_ORDER = ("scary", "errory", "lonely")


def classify_mailbox(nsides, moods, pruned):
    """Independent statement of the documented precedence (C15)."""
    if nsides > 2:
        return "crowded"
    if pruned:
        return "pruney"
    for m in MOOD_ORDER:
        if m in moods:
            return m
    if nsides == 0:
        return "quiet"
    return "happy" if nsides == 2 else "lonely"


def classify_nameplate(nsides, pruned):
    if nsides > 2:
        return "crowded"
    if pruned:
        return "pruney"
    return "happy" if nsides == 2 else "lonely"


class MboxMixin(object):

    def _msg_tuple(self, f):
        return (f.get("side"), f.get("phase"), f.get("body"), f.get("id"), f.get("server_rx"))

    # ------------------------------------------------------------------
    def _cmd_open(self, world, st, ctx):
        cm, msg, rest, err = ctx["cm"], ctx["msg"], ctx["rest"], ctx["err"]
        mid = msg["mailbox"]
        key = (cm.app, mid)
        cm.opened_id = mid
        m = self.mb.get(key)
        created = False
        if m is None:
            m = MbInc(cm.app, mid, self._new_n(), st.t)
            m.for_nameplate = False
            created = True
        idx = m.touch(cm.side, st.t)
        if cm.side in m.closed:
            m.taint.add("reopen")
        if ctx["cls"] == AMBIGUOUS:
            m.taint.add("ambiguous")
        ctx["allowed"] += [self._p_mailbox_row(cm.app, mid), self._p_mailbox_side(mid, cm.side)]
        self._no_usage_change(st, ctx, "open")
        present = bool(mb_find(st.after, cm.app, mid))
        if created and present:
            self.mb[key] = m
        if not present and err is None:
            # C06: the open went through but this app has no such mailbox: it was attached to another app's
            foreign = [r["app_id"] for r in st.after["mailboxes"].values() if r["id"] == mid and r["app_id"] != cm.app]
            if foreign:
                self.flag({"C06", "C05"}, "open of an id stored under another app was attached to that app's mailbox", st,
                          {"mailbox": mid, "conn_app": cm.app, "stored_under": foreign})
        msgs_fr = [(i, f) for i, (c, f) in enumerate(st.frames) if c == st.conn and f.get("type") == "message"]
        if idx >= 2:
            self.ev["c05_third_open"] += 1
            m.taint.add("crowd")
            cm.open_ok = False
            if err != "crowded" or msgs_fr:
                self.flag({"C05"}, "third side's open not refused as crowded", st,
                          {"mailbox": mid, "side": cm.side, "sides": m.side_names(), "frames": _short(rest)})
                if err is None:
                    cm.holds = mid
                    cm.sub = m
            return
        if err is not None:
            cm.open_ok = False
            if err == "crowded" and len(m.sides) >= 3:
                self.known_finding("F7", {"C05", "C14"}, st, {"cmd": "open", "side": cm.side, "sides": m.side_names()})
                return
            self.flag({"C05", "C01"}, "open by one of the first two sides refused", st,
                      {"mailbox": mid, "side": cm.side, "err": err, "sides": m.side_names()})
            return
        cm.open_ok = True
        cm.holds = mid
        cm.sub = m
        cm.stale = False
        m.open_low.add(cm.side)
        m.open_high.add(cm.side)
        m.t_low = max(m.t_low, st.t)
        # C01: the replay is exactly what was added since the last deletion
        self.ev["c01_replay"] += 1
        exp = Counter(self.msgs.get(key, []))
        got = Counter(self._msg_tuple(f) for _, f in msgs_fr)
        ctx["explained"] = {i for i, _ in msgs_fr}
        if len(rest) != len(msgs_fr):
            self.flag({"C01", "C17"}, "open answered with frames other than stored messages", st, {"frames": _short(rest)})
        if exp != got:
            missing = list((exp - got).elements())
            extra = list((got - exp).elements())
            props = {"C01"}
            if any(e[0] not in m.side_names()[:2] for e in extra):
                props.add("C05")
            self.flag(props, "replay differs from the messages added to this mailbox", st,
                      {"mailbox": mid, "app": cm.app, "missing": _short(missing), "extra": _short(extra),
                       "n_expected": sum(exp.values())})
        if exp:
            self.ev["c01_replay_nonempty"] += 1
        # C09 (c): the opener's side row is committed
        self.ev["c09_effects_open"] += 1
        if not present or not any(s["side"] == cm.side for _, s in mb_sides(st.after, mid)):
            self.flag({"C09"}, "open answered but the mailbox/side row is not committed", st, {"mailbox": mid})

    # ------------------------------------------------------------------
    def _cmd_add(self, world, st, ctx):
        cm, msg, rest, err = ctx["cm"], ctx["msg"], ctx["rest"], ctx["err"]
        mid = cm.holds
        key = (cm.app, mid)
        m = self.mb.get(key)
        if ctx["cls"] == AMBIGUOUS or m is None or cm.sub is not m:
            # stale handle: the statement does not decide; whatever was stored without error
            # belongs to the next incarnation of that id (DESIGN C01)
            self.dontcare["add_through_stale_handle"] += 1
            ctx["allowed"].append(lambda *a: True)
            if err is None:
                self.msgs[key].append((cm.side, msg["phase"], msg["body"], msg.get("id"), st.t))
                ctx["explained"] = {i for i, (c, f) in enumerate(st.frames) if f.get("type") == "message"}
            return
        if err is not None:
            self.flag({"C02", "C17"}, "valid add answered with an error", st, {"err": err})
            return
        tup = (cm.side, msg["phase"], msg["body"], msg.get("id"), st.t)
        self.msgs[key].append(tup)
        m.t_low = max(m.t_low, st.t)
        m.t_high = max(m.t_high, st.t)
        # C02: exactly once to every subscribed connection, nothing to anyone else
        self.ev["c02_fanout"] += 1
        per = Counter()
        expl = set()
        for i, (c, f) in enumerate(st.frames):
            if f.get("type") == "message":
                if self._msg_tuple(f) == tup:
                    per[c] += 1
                    expl.add(i)
        ctx["explained"] = expl
        for name, other in self.cm.items():
            if not other.alive:
                continue
            want = 1 if (other.sub is m and not other.closing) else 0
            self.ev["c02_fanout_conn"] += 1
            if other.sub is m and not other.closing:
                self.ev["c02_fanout_subscribed"] += 1
            if other.sub is m and other.closing:
                self.ev["c02_fanout_next_to_closing_subscriber"] += 1
            if per.get(name, 0) != want:
                props = {"C02"}
                if want == 0 and other.side not in m.side_names()[:2]:
                    props.add("C05")
                if want == 0 and other.app != cm.app:
                    props.add("C06")
                self.flag(props, "added message delivered %d times, expected %d" % (per.get(name, 0), want), st,
                          {"to": name, "subscribed": want == 1, "adder": st.conn, "body": _short(msg["body"], 60),
                           "mailbox": mid})
        for name in per:
            if name not in self.cm or not self.cm[name].alive:
                self.flag({"C02"}, "message delivered to a closed connection", st, {"to": name})
        # stored exactly as submitted (C01) and committed before it was sent (C09)
        self.ev["c01_stored_as_submitted"] += 1
        new_rows = [new for (t, k, old, new) in ctx["d"] if t == "messages" and old is None]
        exp_row = {"app_id": cm.app, "mailbox_id": mid, "side": cm.side, "phase": msg["phase"],
                   "body": msg["body"], "server_rx": st.t, "msg_id": msg.get("id")}
        if len(new_rows) != 1 or any(new_rows[0].get(k) != v for k, v in exp_row.items()):
            self.flag({"C01", "C09"}, "stored message row differs from the add", st,
                      {"rows": _short(new_rows), "expected": _short(exp_row)})

        def p_msg(t, k, old, new):
            return t == "messages" and old is None
        ctx["allowed"] += [p_msg, self._p_mailbox_row(cm.app, mid)]
        self._no_usage_change(st, ctx, "add")

    # ------------------------------------------------------------------
    def _cmd_close(self, world, st, ctx):
        cm, msg, rest, err = ctx["cm"], ctx["msg"], ctx["rest"], ctx["err"]
        mid = msg["mailbox"] if "mailbox" in msg else cm.opened_id
        if ctx["cls"] == AMBIGUOUS or mid is None:
            m = self.mb.get((cm.app, mid))
            answered_closed = any(f.get("type") == "closed" for f in rest)
            if m is not None:
                m.taint.add("ambiguous")
                m.t_high = max(m.t_high, st.t)
                if answered_closed or err == "crowded":
                    # whatever the statement says about this command, it evidently reached the store
                    m.touch(cm.side, st.t)
                    if len(m.sides) > 2:
                        m.taint.add("crowd")
                if answered_closed:
                    m.closed.add(cm.side)
                    m.open_low.discard(cm.side)
                    m.open_high.discard(cm.side)
            ctx["allowed"].append(lambda *a: True)
            if answered_closed:
                cm.did_close = True
                cm.holds = None
                cm.sub = None
            return
        key = (cm.app, mid)
        app, side = cm.app, cm.side
        m = self.mb.get(key)
        holding = cm.holds == mid
        existed = bool(mb_find(st.before, app, mid))
        ephemeral = False
        if m is None:
            m = MbInc(app, mid, self._new_n(), st.t)
            m.for_nameplate = False
            ephemeral = True
        idx = m.touch(side, st.t)
        closed_ok = len(rest) == 1 and rest[0].get("type") == "closed"

        # footprint: this side's row; or the whole channel
        def p_side(t, k, old, new):
            return t == "mailbox_sides" and (new or old)["mailbox_id"] == mid and \
                ((new or old)["side"] == side or new is None)

        def p_del(t, k, old, new):
            if new is not None:
                return False
            if t == "mailboxes":
                return old["app_id"] == app and old["id"] == mid
            if t == "messages":
                return old["mailbox_id"] == mid and old["app_id"] == app
            if t == "nameplates":
                return old["app_id"] == app and old["mailbox_id"] == mid
            if t == "nameplate_sides":
                r = st.before["nameplates"].get(old["nameplates_id"])
                return r is not None and r["app_id"] == app and r["mailbox_id"] == mid
            return False
        ctx["allowed"] += [p_side, p_del, self._p_mailbox_row(app, mid)]

        if idx >= 2:
            self.ev["c05_third_close"] += 1
            m.taint.add("crowd")
            cm.close_failed = True
            if err != "crowded":
                self.flag({"C05"}, "third side's close not refused as crowded", st,
                          {"mailbox": mid, "side": side, "sides": m.side_names(), "frames": _short(rest)})
            if ephemeral and mb_find(st.after, app, mid):
                self.mb[key] = m
            return
        if not closed_ok:
            cm.close_failed = True
            if err == "crowded" and len(m.sides) >= 3:
                self.known_finding("F7", {"C05", "C14"}, st, {"cmd": "close", "side": side, "sides": m.side_names()})
                return
            self.ev["c08_close_completes"] += 1
            self.flag({"C08"}, "close not answered closed", st,
                      {"mailbox": mid, "side": side, "frames": _short(rest), "sides": m.side_names()})
            return
        self.ev["c08_close_completes"] += 1
        cm.did_close = True
        cm.holds = None
        if cm.sub is not None:
            cm.sub = None
        m.moods[side] = msg.get("mood")
        m.closed.add(side)
        m.open_low.discard(side)
        m.open_high.discard(side)
        gone = not mb_find(st.after, app, mid)
        others_low = set(m.open_low)
        # any other connection of the same side that is still subscribed keeps no claim on it:
        # the statement speaks of sides, not connections.
        tainted = bool(m.taint - SOFT)
        if others_low and not tainted:
            # C08: one side's close never removes the other side's access or messages
            self.ev["c08_survives_other_open"] += 1
            if gone:
                # like a premature expiry, a deletion that is not the last close also breaks what the other properties
                # promise until the mailbox's deletion "by last close or expiry": stored messages (C01), subscriptions (C02)
                also = set()
                if msgs_of(st.before, app, mid):
                    also.add("C01")
                if any(o.alive and o.sub is m for o in self.cm.values()):
                    also.add("C02")
                self.flag({"C08"} | also, "mailbox deleted while another side that opened it has not closed", st,
                          {"mailbox": mid, "closing": side, "still_open": sorted(others_low)})
            else:
                nb = len(msgs_of(st.before, app, mid))
                na = len(msgs_of(st.after, app, mid))
                if nb != na:
                    self.flag({"C08", "C01"}, "close removed stored messages while the mailbox lives", st,
                              {"mailbox": mid, "before": nb, "after": na})
                for o in others_low:
                    if not any(s["side"] == o and s["opened"] for _, s in mb_sides(st.after, mid)):
                        self.flag({"C08"}, "other side's open record lost by this close", st, {"other": o})
        elif not m.open_high and not tainted:
            # last open side closed: everything goes together
            self.ev["c08_deleted_after_last_close"] += 1
            left = []
            if not gone:
                left.append("mailbox")
            if msgs_of(st.after, app, mid):
                left.append("messages")
            if mb_sides(st.after, mid):
                left.append("side records")
            if any(r["mailbox_id"] == mid and r["app_id"] == app for r in st.after["nameplates"].values()):
                left.append("nameplate")
            if left:
                self.flag({"C08"}, "after the last close something of the mailbox is still stored", st,
                          {"mailbox": mid, "left": left})
                # by the statements this incarnation is over and its messages are gone: whoever opens the id next starts empty
                self.mb.pop(key, None)
                self.msgs.pop(key, None)
                for other in self.cm.values():
                    if other.sub is m:
                        other.sub = None
                        other.stale = True
        else:
            self.dontcare["c08_lifetime"] += 1
        # C09 (c): what `closed` acknowledges is committed
        self.ev["c09_effects_closed"] += 1
        if not gone and any(s["side"] == side and s["opened"] for _, s in mb_sides(st.after, mid)):
            self.flag({"C09", "C08"}, "closed acknowledged but the side is still stored as open", st, {"mailbox": mid})
        # usage (C15): one mailbox record iff retired, and one for each nameplate deleted with it
        if self.usage_on:
            retired = gone and (existed or ephemeral)
            self._usage_mailbox_retired(st, ctx, m, retired, pruned=False, ephemeral=(ephemeral and not existed))
        if gone:
            self.mb.pop(key, None)
            self.msgs.pop(key, None)
            for other in self.cm.values():
                if other.sub is m:
                    other.sub = None
                    other.stale = True
        elif ephemeral:
            self.mb[key] = m

    # ------------------------------------------------------------------
    # usage records
    def _expected_mailbox_usage(self, m, when, pruned):
        sides = m.sides
        t0 = sides[0][1] if sides else when
        waiting = (sides[1][1] - sides[0][1]) if len(sides) > 1 else None
        moods = [v for v in m.moods.values() if v]
        return {"app_id": m.app, "started": self._blurred(t0), "waiting_time": waiting,
                "total_time": when - t0, "result": classify_mailbox(len(sides), moods, pruned)}, t0

    def _usage_mailbox_retired(self, st, ctx_or_ud, m, retired, pruned, ephemeral=False):
        ud = ctx_or_ud["ud"] if isinstance(ctx_or_ud, dict) else ctx_or_ud
        new_mb = [new for (t, k, old, new) in ud if t == "mailboxes" and old is None]
        new_np = [new for (t, k, old, new) in ud if t == "nameplates" and old is None]
        other = [e for e in ud if not (e[0] in ("mailboxes", "nameplates") and e[2] is None)]
        self.ev["c15_conservation_mailbox"] += 1
        want = 1 if retired else 0
        if other:
            self.flag({"C15"}, "usage rows changed/deleted", st, {"udiff": _d(other)})
        if len(new_mb) != want:
            self.flag({"C15"}, "mailbox retirement wrote %d usage records, expected %d" % (len(new_mb), want), st,
                      {"mailbox": m.mid, "ephemeral": ephemeral})
        elif want and not m.unknown_origin and "ambiguous" not in m.taint:
            exp, t0 = self._expected_mailbox_usage(m, st.t, pruned)
            self.ev["c15_classified_mailbox"] += 1
            got = new_mb[0]
            bad = [k for k in exp if got.get(k) != exp[k]]
            if bad:
                self.flag({"C15"} | ({"C16"} if bad == ["started"] else set()),
                          "mailbox usage record differs from the facts", st,
                          {"got": got, "expected": exp, "fields": bad})
            self._check_blur(st, "started", got["started"], t0, "mailbox-pruned" if pruned else "mailbox-close")
        # nameplates that went with the mailbox
        gone_np = [old for (t, k, old, new) in st.extra["diff"] if t == "nameplates" and new is None]
        self.ev["c15_conservation_nameplate"] += 1
        if len(new_np) != len(gone_np):
            self.flag({"C15"}, "nameplates retired with the mailbox: %d, usage records written: %d"
                      % (len(gone_np), len(new_np)), st, {"mailbox": m.mid})
        elif gone_np:
            for old in gone_np:
                n = self.np.get((old["app_id"], old["name"]))
                if n is not None and not n.unknown_origin and "ambiguous" not in n.taint and len(new_np) == 1:
                    self._check_np_record(st, n, new_np[0], st.t, pruned, "nameplate-by-close")
        for old in gone_np:
            self.np.pop((old["app_id"], old["name"]), None)

    def _check_np_record(self, st, n, got, when, pruned, path):
        at = n.attempts
        t0 = at[0][1]
        waiting = (at[1][1] - at[0][1]) if len(at) > 1 else None
        exp = {"app_id": n.app, "started": self._blurred(t0), "waiting_time": waiting,
               "total_time": when - t0, "result": classify_nameplate(len(at), pruned)}
        self.ev["c15_classified_nameplate"] += 1
        bad = [k for k in exp if got.get(k) != exp[k]]
        if bad:
            self.flag({"C15"} | ({"C16"} if bad == ["started"] else set()),
                      "nameplate usage record differs from the facts", st,
                      {"got": got, "expected": exp, "fields": bad, "path": path})
        self._check_blur(st, "started", got["started"], t0, path)

    def _usage_nameplate_retired(self, st, ctx, n, retired, pruned):
        ud = ctx["ud"]
        new_np = [new for (t, k, old, new) in ud if t == "nameplates" and old is None]
        other = [e for e in ud if not (e[0] == "nameplates" and e[2] is None)]
        self.ev["c15_conservation_nameplate"] += 1
        want = 1 if retired else 0
        if other:
            self.flag({"C15"}, "release changed other usage rows", st, {"udiff": _d(other)})
        if len(new_np) != want:
            self.flag({"C15"}, "nameplate retirement wrote %d usage records, expected %d" % (len(new_np), want), st,
                      {"name": n.name})
        elif want and not n.unknown_origin and "ambiguous" not in n.taint:
            self._check_np_record(st, n, new_np[0], st.t, pruned, "nameplate-release")
