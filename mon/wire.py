"""Wire tier: the unmodified service in a subprocess (real reactor, real listening endpoint on
127.0.0.1:0, real files on disk), driven over TCP by a small blocking WebSocket client, optionally
under strace.  Used for (a) harness fidelity: the frames recorded in-process must equal the frames a
real client receives for the same history; (b) C09's syscall-order checker."""
import os, sys, json, socket, struct, base64, subprocess, time, re, select, random
from .engine import _SRC

SERVER_CODE = r'''
import sys, os, json
sys.path.insert(0, %(src)r)
import warnings; warnings.simplefilter("ignore")
from twisted.internet import reactor
from twisted.application.internet import StreamServerEndpointService
from wormhole_mailbox_server import server_tap, server as _server_mod
if %(seed)r is not None:
    # same replayable allocation choices as the in-process runs (the only change to the service)
    sys.path.insert(0, %(verif)r)
    from mon.engine import KeyedRandom
    _server_mod.random = KeyedRandom(%(seed)r)
o = server_tap.Options()
o.parseOptions(%(args)r)
svc = server_tap.makeService(o)
def announce(port):
    sys.stdout.write("PORT %%d\n" %% port.getHost().port); sys.stdout.flush()
    return port
svc.startService()
# never outlive the check that started us (a killed strace detaches and leaves its tracee running)
reactor.callLater(240, os._exit, 0)
for s in svc:
    if isinstance(s, StreamServerEndpointService):
        s._waitingForPort.addCallback(announce)
reactor.run()
'''


class RawWS(object):
    """Minimal RFC 6455 client on a blocking socket (text frames, masking, ping/pong, close)."""
    def __init__(self, port, timeout=10.0):
        self.s = socket.create_connection(("127.0.0.1", port), timeout=timeout)
        key = base64.b64encode(os.urandom(16)).decode()
        req = ("GET /v1 HTTP/1.1\r\nHost: 127.0.0.1:%d\r\nUpgrade: websocket\r\nConnection: Upgrade\r\n"
               "Sec-WebSocket-Key: %s\r\nSec-WebSocket-Version: 13\r\n\r\n" % (port, key))
        self.s.sendall(req.encode())
        self.buf = b""
        while b"\r\n\r\n" not in self.buf:
            d = self.s.recv(4096)
            if not d:
                raise IOError("handshake failed: %r" % self.buf[:200])
            self.buf += d
        head, self.buf = self.buf.split(b"\r\n\r\n", 1)
        if b" 101 " not in head.split(b"\r\n")[0]:
            raise IOError("handshake refused: %r" % head[:200])
        self.closed = False

    def send_text(self, text):
        data = text.encode("utf-8")
        self._send_frame(0x1, data)

    def _send_frame(self, opcode, data):
        mask = os.urandom(4)
        n = len(data)
        hdr = bytes([0x80 | opcode])
        if n < 126:
            hdr += bytes([0x80 | n])
        elif n < 65536:
            hdr += bytes([0x80 | 126]) + struct.pack(">H", n)
        else:
            hdr += bytes([0x80 | 127]) + struct.pack(">Q", n)
        masked = bytes(b ^ mask[i % 4] for i, b in enumerate(data))
        self.s.sendall(hdr + mask + masked)

    def _need(self, n):
        while len(self.buf) < n:
            d = self.s.recv(65536)
            if not d:
                raise EOFError("connection closed by server")
            self.buf += d

    def recv_frame(self):
        """-> (opcode, payload bytes); replies to pings itself."""
        while True:
            self._need(2)
            b0, b1 = self.buf[0], self.buf[1]
            n = b1 & 0x7f
            off = 2
            if n == 126:
                self._need(4)
                n = struct.unpack(">H", self.buf[2:4])[0]
                off = 4
            elif n == 127:
                self._need(10)
                n = struct.unpack(">Q", self.buf[2:10])[0]
                off = 10
            self._need(off + n)
            payload = self.buf[off:off + n]
            self.buf = self.buf[off + n:]
            op = b0 & 0x0f
            if op == 0x9:
                self._send_frame(0xA, payload)
                continue
            if op == 0xA:
                continue
            if op == 0x8:
                self.closed = True
                raise EOFError("close frame from server: %r" % payload[:50])
            return op, payload

    def recv_json(self):
        op, payload = self.recv_frame()
        return json.loads(payload.decode("utf-8"))

    def close(self):
        try:
            self.s.close()
        except Exception:
            pass
        self.closed = True


class WireServer(object):
    def __init__(self, workdir, cfg, strace_log=None, seed=None):
        self.workdir = workdir
        args = ["--port=tcp:0:interface=127.0.0.1", "--channel-db=" + os.path.join(workdir, "channel.sqlite")]
        if cfg.usage:
            args.append("--usage-db=" + os.path.join(workdir, "usage.sqlite"))
        if cfg.blur is not None:
            args.append("--blur-usage=%d" % cfg.blur)
        if not cfg.allow_list:
            args.append("--disallow-list")
        if cfg.motd is not None:
            args.append("--motd=" + cfg.motd)
        if cfg.advertise is not None:
            args.append("--advertise-version=" + cfg.advertise)
        if cfg.signal_error is not None:
            args.append("--signal-error=" + cfg.signal_error)
        verif = os.path.dirname(os.path.dirname(os.path.abspath(__file__)))
        code = SERVER_CODE % {"src": _SRC, "args": args, "seed": seed, "verif": verif}
        cmd = ["/venv/bin/python", "-W", "ignore", "-c", code]
        if strace_log:
            cmd = ["strace", "-f", "-yy", "-o", strace_log, "-e",
                   "trace=openat,pwrite64,write,writev,sendto,sendmsg,fdatasync,fsync,unlink,unlinkat,close"] + cmd
        env = dict(os.environ, PYTHONDONTWRITEBYTECODE="1", GIT_OPTIONAL_LOCKS="0")
        self.p = subprocess.Popen(cmd, stdout=subprocess.PIPE, stderr=subprocess.DEVNULL, env=env, cwd=workdir,
                                  start_new_session=True)
        self.port = None
        t0 = time.monotonic()
        while time.monotonic() - t0 < 30:
            r, _, _ = select.select([self.p.stdout], [], [], 0.5)
            if r:
                line = self.p.stdout.readline().decode()
                if line.startswith("PORT "):
                    self.port = int(line.split()[1])
                    break
                if not line and self.p.poll() is not None:
                    break
        if self.port is None:
            self.stop()
            raise IOError("wire server did not start")

    def stop(self):
        """Ends the whole process group: under strace the server is a grandchild, and a terminated strace only
        detaches from it."""
        import signal
        for sig in (signal.SIGTERM, signal.SIGKILL):
            try:
                os.killpg(self.p.pid, sig)
            except (ProcessLookupError, PermissionError):
                pass
            try:
                self.p.wait(timeout=5)
            except subprocess.TimeoutExpired:
                continue
            if sig == signal.SIGTERM:
                time.sleep(0.05)
        try:
            os.killpg(self.p.pid, signal.SIGKILL)
        except (ProcessLookupError, PermissionError):
            pass
        try:
            self.p.stdout.close()
        except Exception:
            pass


def strip(frame):
    return {k: v for k, v in frame.items() if k not in ("server_tx", "server_rx")}


def run_wire(hist, server, resolve_state=None):
    """Execute connect/send/drop steps of a symbolic history over TCP.
    -> per history step: {conn: [frames without timestamps]}"""
    conns = {}
    allocs, claims = {}, {}
    nsync = [0]
    out = []

    def resolve(v):
        if isinstance(v, dict):
            if "$alloc" in v and len(v) == 1:
                return allocs.get(v["$alloc"], "unallocated-" + v["$alloc"])
            if "$claimed" in v and len(v) == 1:
                return claims.get(v["$claimed"], "unclaimed-" + v["$claimed"])
            return {k: resolve(x) for k, x in v.items()}
        if isinstance(v, list):
            return [resolve(x) for x in v]
        return v

    def sync(c):
        """barrier on connection c: everything the server sent before its pong has been read"""
        nsync[0] += 1
        tok = "sync-%d" % nsync[0]
        ws = conns[c]
        got = []
        ws.send_text(json.dumps({"type": "ping", "ping": tok}))
        pending_ack = True
        while True:
            f = ws.recv_json()
            if f.get("type") == "pong" and f.get("pong") == tok:
                break
            got.append(f)
        # drop the ack that belongs to the sync ping (the last ack with id None before the pong)
        for i in range(len(got) - 1, -1, -1):
            if got[i].get("type") == "ack" and got[i].get("id") is None:
                del got[i]
                break
        return [strip(f) for f in got]

    for s in hist:
        rec = {}
        op = s[0]
        if op == "connect":
            ws = RawWS(server.port)
            conns[s[1]] = ws
            rec[s[1]] = sync(s[1])
        elif op == "send" and s[1] in conns and not conns[s[1]].closed:
            msg = resolve(s[2])
            conns[s[1]].send_text(json.dumps(msg))
            try:
                rec[s[1]] = sync(s[1])
            except EOFError as e:
                rec[s[1]] = [{"type": "<dropped>"}]
                conns[s[1]].close()
            for f in rec.get(s[1], []):
                if f.get("type") == "allocated":
                    allocs[s[1]] = f.get("nameplate")
                elif f.get("type") == "claimed":
                    claims[s[1]] = f.get("mailbox")
            for c, ws in conns.items():
                if c != s[1] and not ws.closed:
                    try:
                        fr = sync(c)
                    except EOFError:
                        fr = [{"type": "<dropped>"}]
                        ws.close()
                    if fr:
                        rec[c] = fr
        elif op == "drop" and s[1] in conns:
            conns[s[1]].close()
            time.sleep(0.05)
            # barrier through any other connection so that the server has processed the disconnect
            for c, ws in conns.items():
                if not ws.closed:
                    try:
                        sync(c)
                    except EOFError:
                        ws.close()
                    break
        out.append(rec)
    for ws in conns.values():
        ws.close()
    return out


def closing_handshake_case(workdir, cfg, order=("A", "B", "C"), adds=2):
    """Real process, real TCP: subscribers A (side s1), B (side s2), C (side s1, second connection) on one mailbox,
    opened in the given order.  The server process is stopped (SIGSTOP), A sends a websocket Close frame and B an
    `add`, the process continues: both arrive in one reactor round, so the add is processed while A's closing
    handshake is under way (autobahn state CLOSING, connection not lost yet).  B must get its ack and its own
    message, C the message, and B's connection must stay usable.
    -> (problems, observed)"""
    import signal
    srv = WireServer(workdir, cfg)
    conns = {}
    problems, observed = [], {}

    def read_until_pong(ws, tok, timeout=5.0):
        ws.s.settimeout(timeout)
        got = []
        try:
            while True:
                f = ws.recv_json()
                if f.get("type") == "pong" and f.get("pong") == tok:
                    return got, None
                got.append(strip(f))
        except EOFError as e:
            return got, "connection closed by the server"
        except Exception as e:
            return got, "no answer (%s)" % type(e).__name__

    try:
        sides = {"A": "s1", "B": "s2", "C": "s1"}
        for name in order:
            ws = RawWS(srv.port)
            ws.recv_json()
            ws.send_text(json.dumps({"type": "bind", "appid": "app", "side": sides[name]}))
            ws.send_text(json.dumps({"type": "open", "mailbox": "mbx"}))
            ws.send_text(json.dumps({"type": "ping", "ping": "o"}))
            read_until_pong(ws, "o")
            conns[name] = ws
        for ws in conns.values():      # drain
            ws.send_text(json.dumps({"type": "ping", "ping": "d"}))
            read_until_pong(ws, "d")
        os.kill(srv.p.pid, signal.SIGSTOP)
        try:
            time.sleep(0.05)
            conns["A"]._send_frame(0x8, struct.pack(">H", 1000))
            time.sleep(0.05)
            for i in range(adds):
                conns["B"].send_text(json.dumps({"type": "add", "phase": "p%d" % i, "body": "w%d" % i, "id": "a%d" % i}))
            conns["B"].send_text(json.dumps({"type": "ping", "ping": "after"}))
            time.sleep(0.05)
        finally:
            os.kill(srv.p.pid, signal.SIGCONT)
        gotB, errB = read_until_pong(conns["B"], "after")
        observed["B"] = gotB + ([errB] if errB else [])
        if errB:
            problems.append("the adding connection: %s" % errB)
        bodies = [f.get("body") for f in gotB if f.get("type") == "message"]
        want = ["w%d" % i for i in range(adds)]
        if bodies != want:
            problems.append("the adding connection received messages %r, expected %r" % (bodies, want))
        if "C" in conns:
            conns["C"].send_text(json.dumps({"type": "ping", "ping": "after"}))
            gotC, errC = read_until_pong(conns["C"], "after")
            observed["C"] = gotC + ([errC] if errC else [])
            bodiesC = [f.get("body") for f in gotC if f.get("type") == "message"]
            if errC or bodiesC != want:
                problems.append("another subscriber received messages %r, expected %r (%s)" % (bodiesC, want, errC))
        return problems, observed
    finally:
        for ws in conns.values():
            ws.close()
        srv.stop()


def transport_case(workdir, cfg, variant):
    """Real process, real TCP, things only a real transport has: a command of 1.5 MB; several commands written in one
    segment; one frame dribbling in byte by byte; a plain HTTP GET of /v1 and a connection that says nothing, before
    and between websocket clients; an unbound connection that only pings for a while.  In every variant A (s1) and B
    (s2) then share a mailbox: each command is acknowledged, each add reaches both, nobody is dropped.
    -> (problems, observed)"""
    srv = WireServer(workdir, cfg)
    conns = []
    problems, observed = [], {}

    def until_pong(ws, tok, timeout=8.0):
        ws.s.settimeout(timeout)
        got = []
        try:
            while True:
                f = ws.recv_json()
                if f.get("type") == "pong" and f.get("pong") == tok:
                    return got, None
                got.append(strip(f))
        except EOFError:
            return got, "connection closed by the server"
        except Exception as e:
            return got, "no answer (%s)" % type(e).__name__

    def frame(ws, obj):
        data = json.dumps(obj).encode("utf-8")
        mask = os.urandom(4)
        n = len(data)
        hdr = bytes([0x81])
        if n < 126:
            hdr += bytes([0x80 | n])
        elif n < 65536:
            hdr += bytes([0x80 | 126]) + struct.pack(">H", n)
        else:
            hdr += bytes([0x80 | 127]) + struct.pack(">Q", n)
        return hdr + mask + bytes(b ^ mask[i % 4] for i, b in enumerate(data))

    try:
        if variant == "http-first":
            for req in (b"GET /v1 HTTP/1.1\r\nHost: x\r\n\r\n", b"GET / HTTP/1.0\r\n\r\n", b""):
                s = socket.create_connection(("127.0.0.1", srv.port), timeout=5)
                if req:
                    s.sendall(req)
                    try:
                        s.recv(4096)
                    except Exception:
                        pass
                s.close()
        A = RawWS(srv.port); conns.append(A); A.recv_json()
        B = RawWS(srv.port); conns.append(B); B.recv_json()
        if variant == "idle-unbound":
            for i in range(3):
                A.send_text(json.dumps({"type": "ping", "ping": i}))
                until_pong(A, i)
                time.sleep(0.4)
        big = "f" * (1500 * 1000) if variant == "bigframe" else "small"
        cmdsA = [{"type": "bind", "appid": "app", "side": "s1"}, {"type": "open", "mailbox": "tr"},
                 {"type": "add", "phase": "p1", "body": "a1-" + big, "id": "x1"}, {"type": "add", "phase": "p2", "body": "a2", "id": "x2"},
                 {"type": "ping", "ping": "endA"}]
        B.send_text(json.dumps({"type": "bind", "appid": "app", "side": "s2"}))
        B.send_text(json.dumps({"type": "open", "mailbox": "tr"}))
        B.send_text(json.dumps({"type": "ping", "ping": "rdy"}))
        until_pong(B, "rdy")
        if variant == "pipelined":
            A.s.sendall(b"".join(frame(A, c) for c in cmdsA))
        elif variant == "dribble":
            for c in cmdsA:
                raw = frame(A, c)
                for i in range(0, len(raw), 7):
                    A.s.sendall(raw[i:i + 7])
        else:
            for c in cmdsA:
                A.send_text(json.dumps(c))
        gotA, errA = until_pong(A, "endA", timeout=20.0)
        observed["A"] = [dict(f, body=f["body"][:12]) if "body" in f else f for f in gotA] + ([errA] if errA else [])
        acks = [f.get("id") for f in gotA if f.get("type") == "ack"]
        bodiesA = [f.get("body") for f in gotA if f.get("type") == "message"]
        want = ["a1-" + big, "a2"]
        if errA:
            problems.append("the sending connection: %s" % errA)
        if [a for a in acks if a in ("x1", "x2")] != ["x1", "x2"]:
            problems.append("adds not acknowledged in order: %r" % acks)
        if bodiesA != want:
            problems.append("the sender received %d of its 2 messages" % len([x for x in bodiesA if x in want]))
        B.send_text(json.dumps({"type": "ping", "ping": "endB"}))
        gotB, errB = until_pong(B, "endB", timeout=20.0)
        bodiesB = [f.get("body") for f in gotB if f.get("type") == "message"]
        observed["B"] = [dict(f, body=f["body"][:12]) if "body" in f else f for f in gotB] + ([errB] if errB else [])
        if errB or bodiesB != want:
            problems.append("the other subscriber received %d of the 2 messages (%s)" % (len([x for x in bodiesB if x in want]), errB))
        return problems, observed
    finally:
        for ws in conns:
            ws.close()
        srv.stop()


# ---------------------------------------------------------------------------
# syscall-order checker (C09)

_RE = re.compile(r"^(\d+)\s+(\w+)\((.*)$")


def check_strace_log(path, workdir):
    """Offline checker over the strace log of a server process.  Rules:
      R1  at every write to a TCP socket no <db>-journal file is live (created and not yet unlinked):
          nothing is sent while a transaction's journal is on disk;
      R2  every journal unlink (= commit point) is preceded, after the last pwrite to the database
          file, by an fdatasync/fsync of that database file;
      R3  the journal was synced before the first pwrite to the database file in that transaction.
    -> (problems, stats)"""
    live = {}          # journal path -> state dict
    problems = []
    stats = {"tcp_writes": 0, "commits": 0, "db_pwrites": 0, "db_syncs": 0, "journal_syncs": 0}
    fdre = re.compile(r"^(\d+)<([^>]*)>")
    with open(path, "r", errors="replace") as f:
        for line in f:
            m = _RE.match(line)
            if not m:
                continue
            name, rest = m.group(2), m.group(3)
            if "unfinished" in rest and name not in ("write", "sendto"):
                pass
            if name in ("openat",):
                mm = re.search(r'"([^"]*-journal)"', rest)
                if mm and "O_CREAT" in rest and mm.group(1).startswith(workdir) and " = -1" not in rest:
                    live.setdefault(mm.group(1), {"synced": False, "db_written": False, "db_synced_after_write": True})
                continue
            fm = fdre.match(rest)
            target = fm.group(2) if fm else ""
            if name in ("write", "writev", "sendto", "sendmsg") and target.startswith("TCP:"):
                stats["tcp_writes"] += 1
                if live:
                    problems.append("R1: TCP write while journal live: %s | %s" % (sorted(live), line.strip()[:160]))
            elif name == "pwrite64" and target.startswith(workdir):
                if target.endswith("-journal"):
                    st = live.get(target)
                    if st is not None:
                        st["synced"] = False
                else:
                    stats["db_pwrites"] += 1
                    j = target + "-journal"
                    st = live.get(j)
                    if st is not None:
                        if not st["synced"] and not st["db_written"]:
                            problems.append("R3: database written before its journal was synced: %s" % line.strip()[:160])
                        st["db_written"] = True
                        st["db_synced_after_write"] = False
            elif name in ("fdatasync", "fsync") and target.startswith(workdir):
                if target.endswith("-journal"):
                    stats["journal_syncs"] += 1
                    if target in live:
                        live[target]["synced"] = True
                elif target.endswith(".sqlite") or ".sqlite." in target:
                    stats["db_syncs"] += 1
                    j = target + "-journal"
                    if j in live:
                        live[j]["db_synced_after_write"] = True
            elif name in ("unlink", "unlinkat"):
                mm = re.search(r'"([^"]*-journal)"', rest)
                if mm and mm.group(1) in live:
                    st = live.pop(mm.group(1))
                    stats["commits"] += 1
                    if st["db_written"] and not st["db_synced_after_write"]:
                        problems.append("R2: journal unlinked (commit) before the database file was synced: %s" % line.strip()[:160])
    return problems, stats
