"""One shard of one check: python -m mon.worker ID tier seed shard nshards outfile budget_s"""
import sys, json, time, os, traceback, warnings
warnings.simplefilter("ignore")


def main():
    pid, tier, seed, shard, nshards, out, budget = sys.argv[1:8]
    seed, shard, nshards, budget = int(seed), int(shard), int(nshards), float(budget)
    # the server's answers and records do not depend on the operator's time zone: shards run in different ones
    import time as _t
    os.environ["TZ"] = ["UTC", "IST-5:30", "NPT-5:45", "EST5EDT", "NZST-12NZDT", "UTC"][shard % 6]
    _t.tzset()
    from mon.checks import registry
    from mon.checks.common import Acc
    from mon.engine import Inconclusive
    mod = registry.module_for(pid)
    acc = Acc(pid)
    t0 = time.monotonic()
    status = "ok"
    try:
        jobs = mod.jobs(pid, tier, seed)
        mine = [j for i, j in enumerate(jobs) if i % nshards == shard]
        for j in mine:
            if time.monotonic() - t0 > budget:
                acc.skipped += 1
                continue
            try:
                mod.run_job(pid, j, acc)
            except Inconclusive as e:
                acc.errors.append("inconclusive: %s" % e)
                status = "inconclusive"
                break
            except Exception as e:
                acc.errors.append("harness error in job %s: %s\n%s" % (json.dumps(j, default=str)[:300], e,
                                                                      traceback.format_exc()[-1500:]))
                status = "inconclusive"
    except Inconclusive as e:
        acc.errors.append("inconclusive: %s" % e)
        status = "inconclusive"
    except Exception as e:
        acc.errors.append("harness error: %s\n%s" % (e, traceback.format_exc()[-1500:]))
        status = "inconclusive"
    res = acc.to_json()
    res["status"] = status
    res["wall"] = time.monotonic() - t0
    with open(out, "w") as f:
        json.dump(res, f, default=str)


if __name__ == "__main__":
    main()
