"""Shared helpers and the incarnation records of the facts tracker."""
import re
EXPIRY = 660.0
PERIOD = 300.0
NUM_RE = re.compile(r"^[1-9][0-9]*$")
import os as _os
# "contaminated" marks every object alive when some violation was reported.  It used to switch the lifetime oracles
# off for them (to keep reports short); it no longer does: the model follows the statements, not the store, so what
# a broken tree does to such an object later is judged like anything else (it can only matter on a tree that has
# already violated something).  VERIF_CONTAM=1 restores the old behaviour for comparison.
SOFT = frozenset() if _os.environ.get("VERIF_CONTAM") == "1" else frozenset({"contaminated"})


def np_find(d, app, name):
    out = [(i, r) for i, r in d["nameplates"].items() if r["app_id"] == app and r["name"] == name]
    return out


def mb_find(d, app, mid):
    return [(i, r) for i, r in d["mailboxes"].items() if r["app_id"] == app and r["id"] == mid]


def np_sides(d, npid):
    return [(i, r) for i, r in d["nameplate_sides"].items() if r["nameplates_id"] == npid]


def mb_sides(d, mid):
    return [(i, r) for i, r in d["mailbox_sides"].items() if r["mailbox_id"] == mid]


def msgs_of(d, app, mid):
    return [(i, r) for i, r in d["messages"].items() if r["app_id"] == app and r["mailbox_id"] == mid]


class MbInc(object):
    def __init__(self, app, mid, n, t):
        self.app, self.mid, self.n = app, mid, n
        self.sides = []            # [(side, t_first_touch)] in order of first touch
        self.open_low = set()      # sides with a successful `open` not closed since
        self.open_high = set()     # sides with successful claim/allocate/open not closed since
        self.closed = set()
        self.moods = {}
        self.t_low = t
        self.t_high = t
        self.taint = set()
        self.for_nameplate = None
        self.unknown_origin = False

    def side_names(self):
        return [s for s, _ in self.sides]

    def touch(self, side, t):
        """-> index of side in order of first touch"""
        names = self.side_names()
        if side not in names:
            self.sides.append((side, t))
            names.append(side)
        self.t_high = max(self.t_high, t)
        return names.index(side)


class NpInc(object):
    def __init__(self, app, name, n, t):
        self.app, self.name, self.n = app, name, n
        self.rowid = None
        self.mid = None
        self.attempts = []         # [(side, t)] first claim attempt that reached the store
        self.ok = []               # sides answered claimed / allocated
        self.released = set()
        self.taint = set()
        self.unknown_origin = False

    def holders(self):
        return [s for s in self.ok if s not in self.released]



def _short(x, n=200):
    s = repr(x)
    return s if len(s) <= n else s[:n] + "..."


def _tail(tb, n=6):
    if not tb:
        return None
    return tb.strip().split("\n")[-n:]


def _d(diff, n=12):
    out = []
    for (t, k, o, nw) in diff[:n]:
        out.append({"table": t, "rowid": k, "old": o, "new": nw})
    return out
