#!/bin/sh
# run every check's quick tier against /repo (refreshes evidence/), summary in /tmp/all.log
cd "$(dirname "$0")/.."
: > /tmp/all.log
for i in 01 02 03 04 05 06 07 08 09 10 11 12 13 14 15 16 17 18 19 20; do
  ./check C$i ${TIER:-quick} 2>&1 | grep -v "^  File\|^    \|Warning" | grep "C$i ${TIER:-quick}:\|what:\|INCONCLUSIVE\|VIOLATION" | cut -c1-300 | head -6 >> /tmp/all.log
done
echo ALLCHECKSDONE >> /tmp/all.log
