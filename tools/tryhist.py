#!/venv/bin/python
"""Run one hand-written history (a Python file defining build(b) on a scenarios.HB builder, optionally CFG and
TIMER) under the facts tracker against a seeded change, and print what the oracles said.

usage: tools/tryhist.py <seed-id|-> <history.py> [PID]
With a seed id a scratch worktree of /repo's HEAD gets the patch applied (removed afterwards); '-' uses /repo."""
import sys, os, json, subprocess, tempfile, shutil

VERIF = os.path.dirname(os.path.dirname(os.path.abspath(__file__)))


def main():
    sid, path = sys.argv[1], sys.argv[2]
    pid = sys.argv[3] if len(sys.argv) > 3 else (sid.split("-")[0] if sid != "-" else "C01")
    if os.environ.get("TRYHIST_CHILD"):
        return child(path, pid)
    wt = None
    env = dict(os.environ, TRYHIST_CHILD="1")
    if sid != "-":
        wt = tempfile.mkdtemp(prefix="trywt-", dir="/tmp")
        os.rmdir(wt)
        subprocess.check_call(["git", "-C", "/repo", "worktree", "add", "-q", "--detach", wt, "HEAD"])
        subprocess.check_call(["git", "-C", wt, "apply", os.path.join(VERIF, "seeded", sid, "patch.diff")])
        env["VERIF_REPO"] = wt
    try:
        subprocess.call([sys.executable, os.path.abspath(__file__), sid, path, pid], env=env, cwd=VERIF)
    finally:
        if wt:
            subprocess.call(["git", "-C", "/repo", "worktree", "remove", "--force", wt])
            shutil.rmtree(wt, ignore_errors=True)


def child(path, pid):
    sys.path.insert(0, VERIF)
    from mon.scenarios import HB, claimed, alloc
    from mon.engine import Config
    from mon.checks.common import Acc, run_hist
    ns = {"claimed": claimed, "alloc": alloc, "Config": Config}
    exec(open(path).read(), ns)
    b = HB()
    ns["build"](b)
    acc = Acc(pid)
    ex = run_hist(acc, b.h, ns.get("CFG", Config(usage=True)), 0, "try", timer=ns.get("TIMER", True), legacy=False,
                  stop_on_violation=False)
    for s in ex.world.steps:
        print("  ", s.brief())
    for v in ex.tracker.violations:
        print("VIOL", sorted(v["props"]), v["kind"], json.dumps(v.get("detail"), default=str)[:300])
    for k in ex.tracker.known:
        print("KNOWN", k["id"])
    print("n violations:", len(ex.tracker.violations))


if __name__ == "__main__":
    main()
