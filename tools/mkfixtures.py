#!/venv/bin/python
"""Regenerate mon/legacy/fixtures/ from the reference tree (/repo, which must be at the commit the checks are built
against, clean).  Run after a repository fix that changes what is stored."""
import os, sys, subprocess
HERE = os.path.dirname(os.path.dirname(os.path.abspath(__file__)))
sys.path.insert(0, HERE)
os.environ.setdefault("PYTHONHASHSEED", "0")
st = subprocess.run(["git", "-C", "/repo", "status", "--short", "--untracked-files=no"], stdout=subprocess.PIPE, text=True).stdout.strip()
if st:
    sys.exit("refusing: /repo has uncommitted changes:\n" + st)
from mon import fixtures
fixtures.generate_all()
head = subprocess.run(["git", "-C", "/repo", "rev-parse", "--short", "HEAD"], stdout=subprocess.PIPE, text=True).stdout.strip()
open(os.path.join(fixtures.HERE, "REFERENCE"), "w").write("generated from /repo %s by tools/mkfixtures.py\n" % head)
print("fixtures written from", head, sorted(os.listdir(fixtures.HERE)))
