#!/venv/bin/python
"""Verify and import sub-agent mutants: tools/importseed.py /tmp/seed/C05/_seed/C05-1 [...]

For each: fresh scratch worktree of /repo HEAD; demo must exit 0 there; apply patch.diff; the
unedited test suite must pass (121); demo must exit 1; then copy to /verif/seeded/<id>/ with
meta.json.  The scratch worktree is removed."""
import sys, os, json, subprocess, tempfile, shutil, re

VERIF = os.path.dirname(os.path.dirname(os.path.abspath(__file__)))


def sh(cmd, **kw):
    return subprocess.run(cmd, stdout=subprocess.PIPE, stderr=subprocess.STDOUT, text=True, **kw)


def main():
    for src in sys.argv[1:]:
        sid = os.path.basename(src.rstrip("/"))
        prop = sid.split("-")[0]
        wt = tempfile.mkdtemp(prefix="impwt-", dir="/tmp")
        os.rmdir(wt)
        sh(["git", "-C", "/repo", "worktree", "add", "--detach", wt, "HEAD"])
        ok = True
        notes = {}
        try:
            demo = os.path.join(src, "demo.py")
            r0 = sh(["/venv/bin/python", "-W", "ignore", demo, wt], timeout=120)
            notes["demo_without_patch_exit"] = r0.returncode
            a = sh(["git", "-C", wt, "apply", os.path.join(src, "patch.diff")])
            if a.returncode != 0:
                print(sid, "PATCH DOES NOT APPLY", a.stdout[-200:])
                continue
            files = sh(["git", "-C", wt, "diff", "--name-only"]).stdout.split()
            notes["files"] = files
            t = sh(["/venv/bin/python", "-m", "pytest", "-q", "-p", "no:cacheprovider", "--timeout=900"], cwd=wt, timeout=900)
            m = re.search(r"(\d+) passed", t.stdout)
            notes["tests_passed_with_patch"] = int(m.group(1)) if m else 0
            notes["tests_failed_with_patch"] = "failed" in t.stdout.splitlines()[-1]
            r1 = sh(["/venv/bin/python", "-W", "ignore", demo, wt], timeout=120)
            notes["demo_with_patch_exit"] = r1.returncode
            notes["demo_output_with_patch"] = r1.stdout[-400:]
            ok = (r0.returncode == 0 and r1.returncode == 1 and notes["tests_passed_with_patch"] == 121
                  and not notes["tests_failed_with_patch"] and all((f.startswith("src/wormhole_mailbox_server/") or f.startswith("docs/")) and "/test/" not in f for f in files))
        finally:
            sh(["git", "-C", "/repo", "worktree", "remove", "--force", wt])
            shutil.rmtree(wt, ignore_errors=True)
        print(sid, "OK" if ok else "REJECTED", {k: v for k, v in notes.items() if k != "demo_output_with_patch"})
        if not ok:
            continue
        dst = os.path.join(VERIF, "seeded", sid)
        os.makedirs(dst, exist_ok=True)
        for f in ("patch.diff", "demo.py", "README.md"):
            if os.path.exists(os.path.join(src, f)):
                shutil.copy(os.path.join(src, f), os.path.join(dst, f))
        readme = open(os.path.join(src, "README.md")).read() if os.path.exists(os.path.join(src, "README.md")) else ""
        meta = {"id": sid, "property": prop, "origin": "independent sub-agent given only the property text and a scratch worktree",
                "needs": readme[:1500], "also_run": [],
                "verified": {"how": "tools/importseed.py: scratch worktree of /repo HEAD; demo.py exit 0 without the patch; git apply patch.diff; "
                                    "unedited suite /venv/bin/python -m pytest -> 121 passed; demo.py exit 1 with the patch", **notes}}
        json.dump(meta, open(os.path.join(dst, "meta.json"), "w"), indent=1)


if __name__ == "__main__":
    main()
