#!/bin/sh
# quiet runner: ./tools/q.sh C01 C02 ...   -> one summary line per check (plus what:/INCONCLUSIVE lines), full log in /tmp/q.log
cd "$(dirname "$0")/.."
: > /tmp/q.log
for p in "$@"; do
  ./check "$p" ${TIER:-quick} 2>&1 | grep -v "^  File\|^    \|Warning\|KNOWN-FINDING" | grep "$p ${TIER:-quick}:\|what:\|INCONCLUSIVE\|VIOLATION" | cut -c1-${W:-260} | head -${N:-6} | tee -a /tmp/q.log
done
echo QDONE
