#!/bin/sh
# tools/withseed.sh <seed-id> <command...> : run a command with VERIF_REPO pointing at a scratch worktree that has the seeded patch applied
sid="$1"; shift
wt=$(mktemp -d /tmp/seedwt-XXXXXX); rmdir "$wt"
git -C /repo worktree add --detach "$wt" HEAD >/dev/null 2>&1
git -C "$wt" apply "/verif/seeded/$sid/patch.diff" || echo "PATCH FAILED"
VERIF_REPO="$wt" VERIF_NO_EVIDENCE=1 "$@"
git -C /repo worktree remove --force "$wt"
