#!/venv/bin/python
"""Run checks against seeded property-breaking changes.

usage: tools/seedtest.py [--all-checks] [--tier quick] [--out FILE] [seed-id ...]      (VERIF_SEED is passed on)

For each /verif/seeded/<id>/ (patch.diff, demo.py, meta.json): make a scratch worktree of /repo's
HEAD outside /repo and /verif, apply the patch there, run the check of the property the change
breaks (and, with --all-checks, every check) with VERIF_REPO pointing at the scratch tree, and
report which checks raise VIOLATION.  The scratch worktree is removed afterwards.  /repo itself
is never modified.  Results are written to /verif/seeded/RESULTS.json."""
import sys, os, json, subprocess, tempfile, shutil, time

VERIF = os.path.dirname(os.path.dirname(os.path.abspath(__file__)))
ALL = ["C%02d" % i for i in range(1, 21)]


def sh(cmd, **kw):
    return subprocess.run(cmd, stdout=subprocess.PIPE, stderr=subprocess.STDOUT, text=True, **kw)


def main():
    args = sys.argv[1:]
    allchecks = "--all-checks" in args
    tier = "quick"
    if "--tier" in args:
        tier = args[args.index("--tier") + 1]
    outp = None
    if "--out" in args:
        outp = args[args.index("--out") + 1]
    ids = [a for a in args if not a.startswith("--") and a != tier and a != outp]
    sdir = os.path.join(VERIF, "seeded")
    if not ids:
        ids = sorted(d for d in os.listdir(sdir) if os.path.isdir(os.path.join(sdir, d)))
    resp = outp or os.path.join(sdir, "RESULTS.json")
    results = json.load(open(resp)) if os.path.exists(resp) else {}
    for sid in ids:
        d = os.path.join(sdir, sid)
        meta = json.load(open(os.path.join(d, "meta.json")))
        wt = tempfile.mkdtemp(prefix="seedwt-", dir="/tmp")
        os.rmdir(wt)
        r = sh(["git", "-C", "/repo", "worktree", "add", "--detach", wt, "HEAD"])
        try:
            a = sh(["git", "-C", wt, "apply", os.path.join(d, "patch.diff")])
            if a.returncode != 0:
                print("%s: patch does not apply: %s" % (sid, a.stdout[-300:]))
                results[sid] = {"error": "patch does not apply"}
                continue
            checks = ALL if allchecks else list(dict.fromkeys([meta["property"]] + meta.get("also_run", [])))
            res = {}
            for c in checks:
                t0 = time.time()
                env = dict(os.environ, VERIF_REPO=wt, VERIF_NO_EVIDENCE="1")
                p = sh([os.path.join(VERIF, "check"), c, tier], cwd=VERIF, env=env)
                out = p.stdout
                caught = p.returncode == 1 and ("VIOLATION property=%s" % c) in out
                what = [l.strip()[:220] for l in out.splitlines() if l.strip().startswith("what:")][:2]
                res[c] = {"exit": p.returncode, "caught": caught, "what": what, "wall_s": round(time.time() - t0, 1)}
                print("%s  %s %s: exit=%d %s %s" % (sid, c, tier, p.returncode, "CAUGHT" if caught else "missed", what[:1]))
            results[sid] = {"property": meta["property"], "tier": tier, "checks": res,
                            "caught_by_own_check": res.get(meta["property"], {}).get("caught", False),
                            "caught_by": sorted(c for c, v in res.items() if v["caught"])}
        finally:
            sh(["git", "-C", "/repo", "worktree", "remove", "--force", wt])
            shutil.rmtree(wt, ignore_errors=True)
        json.dump(results, open(resp, "w"), indent=1, sort_keys=True)
    missed = [s for s in ids if not results.get(s, {}).get("caught_by_own_check")]
    print("missed by own check:", missed)


if __name__ == "__main__":
    main()
