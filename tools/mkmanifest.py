#!/venv/bin/python
"""Regenerate MANIFEST.json from mon/checks/registry.py (run after changing the registry)."""
import json, os, sys
HERE = os.path.dirname(os.path.dirname(os.path.abspath(__file__)))
sys.path.insert(0, HERE)
from mon.checks import registry

ALL = ["C%02d" % i for i in range(1, 21)]
checks = []
for pid in ALL:
    c = registry.CHECKS.get(pid)
    if not c:
        continue
    checks.append({
        "property_id": pid,
        "quick_cmd": "./check %s quick" % pid,
        "thorough_cmd": "./check %s thorough" % pid,
        "evidence_file": "/verif/evidence/%s.json" % pid,
        "replay_cmd_template": "./check %s --replay {path}" % pid,
        "engine": "mon",
        "level_claimed": {"category": c["level"], "text": c["level_text"], "design_ref": c.get("design_ref", "DESIGN.md section 3, " + pid)},
        "level_note": c.get("level_note", "Trusted: CPython, sqlite3/SQLite (atomic commit, recovery), Twisted TimerService/LoopingCall/Clock, autobahn framing; process death only, no power loss. Held means: no oracle fired on the executions listed in the evidence, with all coverage floors met."),
        "technique": c["technique"],
    })
na = [{"property_id": p, "reason": registry.NOT_YET.get(p, "no check registered")} for p in ALL if p not in registry.CHECKS]
m = {
    "version": 1,
    "setup_cmd": "./setup.sh",
    "hooks": {
        "guard": "WORMHOLE_MAILBOX_VERIF",
        "enable": "no source hooks: every observation point is reached from outside (module attributes database.sqlite3 / server.random / time.time, instance attributes, sqlite3.Connection subclass via factory=, sys.monitoring); the guard is declared but unused",
        "baseline_off_cmd": "cd /repo && /venv/bin/python -m pytest -ra -q -p no:cacheprovider --timeout=900 --continue-on-collection-errors",
        "source_commits": [],
        "add_only": True,
    },
    "engines": [{"name": "mon", "path": "mon/", "serves_properties": [c["property_id"] for c in checks],
                 "kind_free_text": "runtime monitoring: the real service (server_tap.makeService) on real SQLite files, driven in-process at the websocket boundary on a virtual clock, observed by an independent reader, a facts tracker with per-property oracles, differential runners and crash/fault injectors"}],
    "checks": checks,
    "not_applicable": na,
    "notes": "All checks: exit 0 held / exit 1 with VIOLATION line / exit 2 inconclusive (monitor not reached, harness problem). Known findings in known_findings.json. Repository fix: commits are listed there as fixed entries.",
}
json.dump(m, open(os.path.join(HERE, "MANIFEST.json"), "w"), indent=1)
print("wrote MANIFEST.json with %d checks, %d not_applicable" % (len(checks), len(na)))
