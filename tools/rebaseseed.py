#!/venv/bin/python
"""tools/rebaseseed.py <seed-id> ...: re-create seeded/<id>/patch.diff against /repo's current HEAD when a later
fix commit touched its context (git apply --3way in a scratch worktree, never in /repo)."""
import sys, os, subprocess, tempfile, shutil
VERIF = os.path.dirname(os.path.dirname(os.path.abspath(__file__)))
def sh(cmd, **kw):
    return subprocess.run(cmd, stdout=subprocess.PIPE, stderr=subprocess.STDOUT, text=True, **kw)
for sid in sys.argv[1:]:
    d = os.path.join(VERIF, "seeded", sid)
    wt = tempfile.mkdtemp(prefix="rebwt-", dir="/tmp"); os.rmdir(wt)
    sh(["git", "-C", "/repo", "worktree", "add", "--detach", wt, "HEAD"])
    try:
        if sh(["git", "-C", wt, "apply", "--check", os.path.join(d, "patch.diff")]).returncode == 0:
            print(sid, "applies as is"); continue
        r = sh(["git", "-C", wt, "apply", "--3way", os.path.join(d, "patch.diff")])
        st = sh(["git", "-C", wt, "status", "--short"]).stdout
        if r.returncode != 0 or "UU" in st or "<<<<<<<" in sh(["git", "-C", wt, "diff"]).stdout:
            print(sid, "CONFLICT", r.stdout[-300:]); continue
        new = sh(["git", "-C", wt, "diff", "HEAD"]).stdout
        t = sh(["/venv/bin/python", "-m", "pytest", "-q", "-p", "no:cacheprovider", "--timeout=900"], cwd=wt)
        ok = "121 passed" in t.stdout
        demo = os.path.join(d, "demo.py")
        dr = sh(["/venv/bin/python", "-W", "ignore", demo, wt], timeout=180).returncode if os.path.exists(demo) else None
        print(sid, "rebased; tests ok" if ok else "rebased; TESTS FAIL", "demo exit", dr)
        if ok and dr in (1, None):
            shutil.copy(os.path.join(d, "patch.diff"), os.path.join(d, "patch.orig.diff"))
            open(os.path.join(d, "patch.diff"), "w").write(new)
    finally:
        sh(["git", "-C", "/repo", "worktree", "remove", "--force", wt]); shutil.rmtree(wt, ignore_errors=True)
